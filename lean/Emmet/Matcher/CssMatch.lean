import Emmet.Matcher.CssScan
namespace C

structure MatchResult where
  type : String
  start : Int
  stop : Int
  bodyStart : Int
  bodyEnd : Int
  deriving Repr

abbrev Rng := Int × Int × Int      -- start, end, delimiter

/-- `match(source, pos)` -/
def matchLoop (pos : Int) : List Ev → List Rng → Option Rng → Option MatchResult
  | [], _, _ => none
  | ev :: evs, stack, pending =>
    match ev.type with
    | .selector => matchLoop pos evs ((ev.start, ev.stop, ev.delimiter) :: stack) none
    | .blockEnd =>
      match stack with
      | parent :: rest =>
        if parent.1 < pos && pos < ev.stop then some ⟨"selector", parent.1, ev.stop, parent.2.2 + 1, ev.start⟩
        else matchLoop pos evs rest none
      | [] => matchLoop pos evs [] none
    | .propertyName => matchLoop pos evs stack (some (ev.start, ev.stop, ev.delimiter))
    | .propertyValue =>
      match pending with
      | some p =>
        if p.1 < pos && pos < ev.stop then some ⟨"property", p.1, ev.delimiter + 1, ev.start, ev.stop⟩
        else matchLoop pos evs stack none
      | none => matchLoop pos evs stack none

def srcAt (src : Array Ch) (i : Int) : Ch := if i < 0 then src.getD (src.size - (-i).toNat) 0 else src.getD i.toNat 0

/-- `inner_range(source, start, end)`; Python negative indexing for `source[end - 1]` is reproduced -/
def innerRange (src : Array Ch) (start stop : Int) : Option (Int × Int) :=
  let rec fwd (fuel : Nat) (s : Int) : Int :=
    match fuel with
    | 0 => s
    | f+1 => if s < stop && 0 ≤ s && s.toNat < src.size && isSpace (src.getD s.toNat 0) then fwd f (s + 1) else s
  let s := fwd (src.size + 1) start
  let rec bwd (fuel : Nat) (e : Int) : Int :=
    match fuel with
    | 0 => e
    | f+1 => if e != 0 && e > s && isSpace (srcAt src (e - 1)) then bwd f (e - 1) else e
  let e := bwd (src.size + 1) stop
  if s != e then some (s, e) else none

def pushR (rs : List (Int × Int)) (r : Int × Int) : List (Int × Int) :=   -- rs is reversed (last first)
  match rs with
  | prev :: _ => if (prev.1 != r.1 || prev.2 != r.2) && r.1 != r.2 then r :: rs else rs
  | [] => if r.1 != r.2 then r :: rs else rs

/-- `balanced_outward` -/
def outwardLoop (src : Array Ch) (pos : Int) : List Ev → List Rng → Option Rng → List (Int × Int) → List (Int × Int)
  | [], _, _, acc => acc.reverse
  | ev :: evs, stack, prop, acc =>
    match ev.type with
    | .selector => outwardLoop src pos evs ((ev.start, ev.stop, ev.delimiter) :: stack) none acc
    | .blockEnd =>
      match stack with
      | left :: rest =>
        let acc' := if left.1 < pos && pos < ev.stop then
            let a1 := match innerRange src (left.2.2 + 1) ev.start with | some i => pushR acc i | none => acc
            pushR a1 (left.1, ev.stop)
          else acc
        if rest.isEmpty then acc'.reverse else outwardLoop src pos evs rest none acc'
      | [] => acc.reverse                                   -- `if not stack: return False`
    | .propertyName => outwardLoop src pos evs stack (some (ev.start, ev.stop, ev.delimiter)) acc
    | .propertyValue =>
      let acc' := match prop with
        | some p =>
          if p.1 < pos && pos < max ev.delimiter ev.stop then
            pushR (pushR acc (ev.start, ev.stop)) (p.1, if ev.delimiter != -1 then ev.delimiter + 1 else ev.stop)
          else acc
        | none => acc
      outwardLoop src pos evs stack none acc'

/-- inward ranges with first child (alias-free) -/
inductive IR | mk (start stop delimiter : Int) (first : Option IR)
def IR.start : IR → Int | .mk s _ _ _ => s
def IR.first : IR → Option IR | .mk _ _ _ f => f
def IR.setFirstIfNone (r : IR) (c : IR) : IR := match r with | .mk s e d none => .mk s e d (some c) | o => o
def IR.withEnd (r : IR) (e : Int) : IR := match r with | .mk s _ d f => .mk s e d f
def IR.updFirstEnd (r : IR) (pstart : Int) (e : Int) : IR :=
  match r with
  | .mk s e0 d (some (.mk cs ce cd cf)) => if cs == pstart then .mk s e0 d (some (.mk cs e cd cf)) else .mk s e0 d (some (.mk cs ce cd cf))
  | o => o

def chainI (src : Array Ch) : Nat → Option IR → List (Int × Int) → List (Int × Int)
  | 0, _, acc => acc
  | _, none, acc => acc
  | fuel+1, some (.mk s e d f), acc =>
    let a1 := pushR acc (s, e)
    let a2 := match innerRange src (d + 1) (e - 1) with | some i => pushR a1 i | none => a1
    chainI src fuel f a2

def inwardLoop (src : Array Ch) (pos : Int) : List Ev → List IR → Option IR → List (Int × Int)
  | [], _, _ => []
  | ev :: evs, stack, pending =>
    match ev.type with
    | .blockEnd =>
      match stack with
      | [] => inwardLoop src pos evs [] none
      | r :: rest =>
        match r with
        | .mk rs _ rd rf =>
          if rs ≤ pos && pos ≤ ev.stop then
            let a1 := pushR [] (rs, ev.stop)
            let a2 := match innerRange src (rd + 1) ev.start with | some i => pushR a1 i | none => a1
            (chainI src (evs.length + stack.length + 1000) rf a2).reverse
          else
            match rest with
            | parent :: rest' => inwardLoop src pos evs (parent.setFirstIfNone (r.withEnd ev.stop) :: rest') none
            | [] => inwardLoop src pos evs [] none
    | .propertyName =>
      let p := IR.mk ev.start ev.stop ev.delimiter none
      match stack with
      | parent :: rest => inwardLoop src pos evs (parent.setFirstIfNone p :: rest) (some p)
      | [] => inwardLoop src pos evs [] (some p)
    | .propertyValue =>
      match pending with
      | some (.mk ps _ _ _) =>
        if ps ≤ pos && pos ≤ ev.stop then
          (pushR (pushR [] (ps, ev.delimiter + 1)) (ev.start, ev.stop)).reverse
        else
          match stack with
          | parent :: rest =>
            inwardLoop src pos evs (parent.updFirstEnd ps (if ev.delimiter != -1 then ev.delimiter + 1 else ev.stop) :: rest) none
          | [] => inwardLoop src pos evs [] none
      | none => inwardLoop src pos evs stack none
    | .selector => inwardLoop src pos evs (.mk ev.start ev.stop ev.delimiter none :: stack) none

/-- `split_value(value)` -/
def isOp (ch : Ch) : Bool := ch == 43 || ch == 47 || ch == 42 || ch == 44
def splitLoop : Nat → Str → Int → Int → Int → List (Int × Int) → List (Int × Int) × Int × Int
  | 0, _, pos, start, _, acc => (acc, start, pos)
  | _+1, [], pos, start, _, acc => (acc, start, pos)
  | fuel+1, x :: xs, pos, start, expr, acc =>
    let isDelim : Option (Str × Int) :=
      if isSpace x || isOp x then some (xs, pos + 1)
      else if x == 45 then (match xs with | y :: ys => if isSpace y then some (ys, pos + 2) else none | [] => none)
      else none
    match isDelim with
    | some (r, p1) =>
      let (acc', start') := if expr == 0 && start != -1 then ((start, pos) :: acc, (-1 : Int)) else (acc, start)
      let (r', n) := spanSpace r 0
      splitLoop fuel r' (p1 + n) start' expr acc'
    | none =>
      let start' := if start == -1 then pos else start
      if x == 40 then splitLoop fuel xs (pos + 1) start' (expr + 1) acc
      else if x == 41 then splitLoop fuel xs (pos + 1) start' (expr - 1) acc
      else match literal (x :: xs) with
        | some (r, n, over) => splitLoop fuel r (pos + n + over) start' expr acc
        | none => splitLoop fuel xs (pos + 1) start' expr acc
def splitValue (s : Str) : List (Int × Int) :=
  let (acc, start, pos) := splitLoop (s.length + 1) s 0 (-1) 0 []
  (if start != -1 && start != pos then (start, pos) :: acc else acc).reverse

end C
