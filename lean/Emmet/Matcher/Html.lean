/-! Model of emmet/html_matcher (utils.py, scan.py, attributes.py partly, __init__.py) on the suffix representation. -/
namespace H
abbrev Ch := Nat
abbrev Str := List Ch

def isAlpha (ch : Ch) : Bool := (97 ≤ ch && ch ≤ 122) || (65 ≤ ch && ch ≤ 90)
def isNumber (ch : Ch) : Bool := 48 ≤ ch && ch ≤ 57
def isSpace (ch : Ch) : Bool := ch == 32 || ch == 9 || ch == 160 || ch == 10 || ch == 13
def isQuote (ch : Ch) : Bool := ch == 34 || ch == 39
def nameStartChar (ch : Ch) : Bool :=
  isAlpha ch || ch == 58 || ch == 95 || (0xC0 ≤ ch && ch ≤ 0xD6) || (0xD8 ≤ ch && ch ≤ 0xF6) || (0xF8 ≤ ch && ch ≤ 0x2FF) ||
  (0x370 ≤ ch && ch ≤ 0x37D) || (0x37F ≤ ch && ch ≤ 0x1FFF)
def nameChar (ch : Ch) : Bool :=
  nameStartChar ch || ch == 45 || ch == 46 || isNumber ch || ch == 0xB7 || (0x300 ≤ ch && ch ≤ 0x36F)
def isTerminator (ch : Ch) : Bool := ch == 62 || ch == 47
def isUnquoted (ch : Ch) : Bool := !isQuote ch && !isSpace ch && !isTerminator ch

def spanP (p : Ch → Bool) : Str → Str × Str
  | [] => ([], [])
  | x :: xs => if p x then let (a, b) := spanP p xs; (x :: a, b) else ([], x :: xs)

/-- `consume_array`: strip a literal prefix -/
def stripPrefix : Str → Str → Option Str
  | [], r => some r
  | p :: ps, x :: xs => if p == x then stripPrefix ps xs else none
  | _ :: _, [] => none

def lit (s : String) : Str := s.toList.map Char.toNat

/-- `ident`: (name, rest) -/
def ident : Str → Option (Str × Str)
  | x :: xs => if nameStartChar x then let (a, b) := spanP nameChar xs; some (x :: a, b) else none
  | [] => none

/-- `eat_quoted(scanner, {throws: False})`: returns consumed quoted string and rest.
    Loop: `while not eof: if eat(quote): ok; eat('\\'); pos += 1` (may step past the end → revert). -/
def quotedLoop (q : Ch) : Nat → Str → Str → Option (Str × Str)
  | 0, _, _ => none
  | _+1, [], _ => none
  | fuel+1, x :: xs, acc =>
    if x == q then some ((x :: acc).reverse, xs)
    else if x == 92 then
      match xs with
      | y :: ys => quotedLoop q fuel ys (y :: x :: acc)
      | [] => none                                  -- pos steps past the end, loop exits, revert
    else quotedLoop q fuel xs (x :: acc)
def eatQuoted : Str → Option (Str × Str)
  | q :: xs => if isQuote q then quotedLoop q (xs.length + 1) xs [q] else none
  | [] => none

/-- `eat_pair(scanner, open, close, {throws: False})` -/
def pairLoop (o c : Ch) : Nat → Str → Nat → Str → Option (Str × Str)
  | 0, _, _, _ => none
  | _+1, [], _, _ => none
  | fuel+1, x :: xs, depth, acc =>
    match eatQuoted (x :: xs) with
    | some (qs, r) => pairLoop o c fuel r depth (qs.reverse ++ acc)
    | none =>
      if x == o then pairLoop o c fuel xs (depth + 1) (x :: acc)
      else if x == c then
        if depth == 1 then some ((x :: acc).reverse, xs) else pairLoop o c fuel xs (depth - 1) (x :: acc)
      else if x == 92 then
        match xs with
        | y :: ys => pairLoop o c fuel ys depth (y :: x :: acc)
        | [] => none
      else pairLoop o c fuel xs depth (x :: acc)
def eatPair (o c : Ch) : Str → Option (Str × Str)
  | x :: xs => if x == o then pairLoop o c (xs.length + 1) xs 1 [x] else none
  | [] => none
def consumePaired (s : Str) : Option (Str × Str) :=
  (eatPair 60 62 s) <|> (eatPair 40 41 s) <|> (eatPair 91 93 s) <|> (eatPair 123 125 s)

/-- `attribute_name` -/
def attributeName : Str → Option (Str × Str)
  | x :: xs =>
    if x == 42 || x == 35 then
      match ident xs with
      | some (n, r) => some (x :: n, r)
      | none => some ([x], xs)
    else (consumePaired (x :: xs)) <|> (ident (x :: xs))
  | [] => none
/-- `attribute_value` -/
def attributeValue (s : Str) : Option (Str × Str) :=
  (eatQuoted s) <|> (consumePaired s) <|>
    (let (a, b) := spanP isUnquoted s; if a.isEmpty then none else some (a, b))

structure Attr where
  name : Str
  nameStart : Nat
  nameEnd : Nat
  value : Option (Str × Nat × Nat)
  deriving Repr

/-- `attributes(src)` (without tag name): offsets relative to `base` -/
def attributesLoop : Nat → Str → Nat → List Attr → List Attr
  | 0, _, _, acc => acc.reverse
  | _+1, [], _, acc => acc.reverse
  | fuel+1, s, pos, acc =>
    let (ws, r0) := spanP isSpace s
    let p0 := pos + ws.length
    match attributeName r0 with
    | some (n, r1) =>
      let ne := p0 + n.length
      match r1 with
      | 61 :: r2 =>
        match attributeValue r2 with
        | some (v, r3) => attributesLoop fuel r3 (ne + 1 + v.length) (⟨n, p0, ne, some (v, ne + 1, ne + 1 + v.length)⟩ :: acc)
        | none => attributesLoop fuel r2 (ne + 1) (⟨n, p0, ne, none⟩ :: acc)
      | _ => attributesLoop fuel r1 ne (⟨n, p0, ne, none⟩ :: acc)
    | none =>
      match r0 with
      | _ :: r1 => attributesLoop fuel r1 (p0 + 1) acc
      | [] => acc.reverse

/-- `skip_attributes`: returns rest and consumed length -/
def skipAttributes : Nat → Str → Nat → Str × Nat
  | 0, s, n => (s, n)
  | _+1, [], n => ([], n)
  | fuel+1, s, n =>
    let (ws, r0) := spanP isSpace s
    let n0 := n + ws.length
    match attributeName r0 with
    | some (nm, r1) =>
      match r1 with
      | 61 :: r2 =>
        match attributeValue r2 with
        | some (v, r3) => skipAttributes fuel r3 (n0 + nm.length + 1 + v.length)
        | none => skipAttributes fuel r2 (n0 + nm.length + 1)
      | _ => skipAttributes fuel r1 (n0 + nm.length)
    | none =>
      match r0 with
      | x :: r1 => if isTerminator x then (r0, n0) else skipAttributes fuel r1 (n0 + 1)
      | [] => ([], n0)

inductive ElemType | open | close | selfClose deriving Repr, DecidableEq
structure Ev where
  name : Str
  type : ElemType
  start : Nat
  stop : Nat
  deriving Repr

/-- `consume_section(prefix, suffix, allow_unclosed=True)`: length consumed -/
def findSuffix (suffix : Str) : Str → Nat → Str × Nat
  | [], n => ([], n)
  | x :: xs, n =>
    match stripPrefix suffix (x :: xs) with
    | some r => (r, n + suffix.length)
    | none => findSuffix suffix xs (n + 1)
def consumeSection (pre suf : Str) (s : Str) : Option (Str × Nat) :=
  match stripPrefix pre s with
  | some r => let (r', n) := findSuffix suf r pre.length; some (r', n)
  | none => none

/-- processing instruction: `<?` … `?>`, skipping quoted strings -/
def piLoop : Nat → Str → Nat → Str × Nat
  | 0, s, n => (s, n)
  | _+1, [], n => ([], n)
  | fuel+1, x :: xs, n =>
    match stripPrefix (lit "?>") (x :: xs) with
    | some r => (r, n + 2)
    | none =>
      match eatQuoted (x :: xs) with
      | some (q, r) => piLoop fuel r (n + q.length)
      | none => piLoop fuel xs (n + 1)
def processingInstruction (s : Str) : Option (Str × Nat) :=
  match stripPrefix (lit "<?") s with
  | some r => let (r', n) := piLoop (r.length + 1) r 2; some (r', n)
  | none => none

/-- special tags: name ↦ none (always) | some list of `type` values -/
def defaultSpecial : List (Str × Option (List Str)) :=
  [(lit "style", none),
   (lit "script", some ([""] ++ ["text/javascript", "application/x-javascript", "javascript", "typescript", "ts", "coffee", "coffeescript"] |>.map lit))]

def unquote (v : Str) : Str :=
  let v1 := match v with | x :: xs => if isQuote x then xs else v | [] => v
  match v1.getLast? with | some l => if isQuote l then v1.dropLast else v1 | none => v1

def isSpecial (special : List (Str × Option (List Str))) (name : Str) (attrSrc : Str) : Bool :=
  match special.find? (·.1 == name) with
  | none => false
  | some (_, none) => true
  | some (_, some types) =>
    let attrs := attributesLoop (attrSrc.length + 1) attrSrc 0 []
    let value : Str := match attrs.find? (·.name == lit "type") with
      | some a => (match a.value with | some (v, _, _) => (if v.isEmpty then [] else unquote v) | none => [])
      | none => []
    types.contains value

/-- skip to the closing tag of a special element: returns (rest after `</name>`, start offset of it, end offset) -/
def findClosing (name : Str) : Str → Nat → Option (Str × Nat × Nat)
  | [], _ => none
  | x :: xs, pos =>
    match stripPrefix ([60, 47] ++ name ++ [62]) (x :: xs) with
    | some r => some (r, pos, pos + name.length + 3)
    | none => findClosing name xs (pos + 1)

/-- after `<`: optional `/` — (isClose, rest, consumed) -/
def openSlash : Str → Bool × Str × Nat
  | 47 :: r => (true, r, 1)
  | r0 => (false, r0, 0)

/-- after the name of a non-closing tag: attributes, blanks, optional `/` — (rest, consumed, type) -/
def tagTail (r2 : Str) : Str × Nat × ElemType :=
  let sa := skipAttributes (r2.length + 1) r2 0
  let sp := spanP isSpace sa.1
  match sp.2 with
  | 47 :: rc => (rc, sa.2 + sp.1.length + 1, .selfClose)
  | rb => (rb, sa.2 + sp.1.length, .open)

/-- what follows a recognised tag head `<name` / `</name`: (rest, consumed after the name, type) -/
def afterName (isClose : Bool) (r2 : Str) : Str × Nat × ElemType :=
  if isClose then (r2, 0, .close) else tagTail r2

/-- `scan(source, callback, special)` as the list of events it would report (callback never stops it) -/
def scanLoop (special : List (Str × Option (List Str))) : Nat → Str → Nat → List Ev → List Ev
  | 0, _, _, acc => acc.reverse
  | _+1, [], _, acc => acc.reverse
  | fuel+1, x :: xs, pos, acc =>
    match consumeSection (lit "<![CDATA[") (lit "]]>") (x :: xs) with
    | some (r, n) => scanLoop special fuel r (pos + n) acc
    | none =>
    match consumeSection (lit "<!--") (lit "-->") (x :: xs) with
    | some (r, n) => scanLoop special fuel r (pos + n) acc
    | none =>
    match processingInstruction (x :: xs) with
    | some (r, n) => scanLoop special fuel r (pos + n) acc
    | none =>
    if x == 60 then
      let os := openSlash xs
      let p1 := pos + 1 + os.2.2
      match ident os.2.1 with
      | some (name, r2) =>
        let an := afterName os.1 r2
        let p3 := p1 + name.length + an.2.1
        match an.1 with
        | 62 :: r4 =>
          let stop := p3 + 1
          let ev : Ev := ⟨name, an.2.2, pos, stop⟩
          let attrSrc := ((x :: xs).drop (name.length + 1)).take (stop - pos - name.length - 2)
          if an.2.2 == .open && isSpecial special name attrSrc then
            match findClosing name r4 stop with
            | some (r5, cs, ce) => scanLoop special fuel r5 ce (⟨name, .close, cs, ce⟩ :: ev :: acc)
            | none => (ev :: acc).reverse
          else scanLoop special fuel r4 stop (ev :: acc)
        | r3 => scanLoop special fuel r3 p3 acc
      | none => scanLoop special fuel os.2.1 p1 acc
    else scanLoop special fuel xs (pos + 1) acc

def scan (s : Str) (special := defaultSpecial) : List Ev := scanLoop special (s.length + 1) s 0 []

def defaultEmpty : List Str := ["img", "meta", "link", "br", "base", "hr", "area", "wbr", "col", "embed", "input", "param", "source", "track"].map lit
def isSelfClose (name : Str) (xml : Bool) : Bool := !xml && defaultEmpty.contains name

structure Tag where
  name : Str
  start : Nat
  stop : Nat
  deriving Repr
structure Matched where
  name : Str
  openR : Nat × Nat
  closeR : Option (Nat × Nat)
  deriving Repr

/-- `match(source, pos)` over the event stream -/
def matchLoop (xml : Bool) (pos : Int) : List Ev → List Tag → Option Matched
  | [], _ => none
  | ev :: evs, stack =>
    let ty := if ev.type == .open && isSelfClose ev.name xml then ElemType.selfClose else ev.type
    match ty with
    | .open => matchLoop xml pos evs (⟨ev.name, ev.start, ev.stop⟩ :: stack)
    | .selfClose =>
      if (ev.start : Int) < pos && pos < ev.stop then some ⟨ev.name, (ev.start, ev.stop), none⟩
      else matchLoop xml pos evs stack
    | .close =>
      match stack with
      | tag :: rest =>
        if tag.name == ev.name then
          if (tag.start : Int) < pos && pos < ev.stop then some ⟨ev.name, (tag.start, tag.stop), some (ev.start, ev.stop)⟩
          else matchLoop xml pos evs rest
        else matchLoop xml pos evs stack
      | [] => matchLoop xml pos evs stack

/-- `balanced_outward` -/
def outwardLoop (xml : Bool) (pos : Int) : List Ev → List Tag → List Matched → List Matched
  | [], _, acc => acc.reverse
  | ev :: evs, stack, acc =>
    if ev.type == .close then
      match stack with
      | tag :: rest =>
        if tag.name == ev.name then
          let acc' := if (tag.start : Int) < pos && pos < ev.stop then ⟨ev.name, (tag.start, tag.stop), some (ev.start, ev.stop)⟩ :: acc else acc
          outwardLoop xml pos evs rest acc'
        else outwardLoop xml pos evs stack acc
      | [] => outwardLoop xml pos evs stack acc
    else if ev.type == .selfClose || isSelfClose ev.name xml then
      let acc' := if (ev.start : Int) < pos && pos < ev.stop then ⟨ev.name, (ev.start, ev.stop), none⟩ :: acc else acc
      outwardLoop xml pos evs stack acc'
    else outwardLoop xml pos evs (⟨ev.name, ev.start, ev.stop⟩ :: stack) acc

/-- inward tags: the tag itself and the chain of first children below it (alias-free version of the pooled objects) -/
structure ITag where
  tag : Matched
  chain : List Matched            -- first child, its first child, …
def ITag.setFirstIfNone (t : ITag) (c : ITag) : ITag :=
  match t.chain with | [] => { t with chain := c.tag :: c.chain } | _ => t
def ITag.withClose (t : ITag) (c : Nat × Nat) : ITag := { t with tag := { t.tag with closeR := some c } }
def ITag.new (name : Str) (o : Nat × Nat) : ITag := ⟨⟨name, o, none⟩, []⟩

def inwardLoop (xml : Bool) (pos : Int) : List Ev → List ITag → List Matched
  | [], _ => []
  | ev :: evs, stack =>
    if ev.type == .close then
      match stack with
      | [] => inwardLoop xml pos evs stack
      | tag :: rest =>
        if tag.tag.name == ev.name then
          if (tag.tag.openR.1 : Int) ≤ pos && pos ≤ ev.stop then
            ⟨ev.name, tag.tag.openR, some (ev.start, ev.stop)⟩ :: tag.chain
          else
            match rest with
            | parent :: rest' => inwardLoop xml pos evs (parent.setFirstIfNone (tag.withClose (ev.start, ev.stop)) :: rest')
            | [] => inwardLoop xml pos evs []
        else inwardLoop xml pos evs stack
    else if ev.type == .selfClose || isSelfClose ev.name xml then
      if (ev.start : Int) < pos && pos < ev.stop then [⟨ev.name, (ev.start, ev.stop), none⟩]
      else
        match stack with
        | parent :: rest => inwardLoop xml pos evs (parent.setFirstIfNone (ITag.new ev.name (ev.start, ev.stop)) :: rest)
        | [] => inwardLoop xml pos evs []
    else inwardLoop xml pos evs (ITag.new ev.name (ev.start, ev.stop) :: stack)

end H
