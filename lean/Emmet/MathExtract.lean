import Emmet.Math
/-! Model of emmet/math_expression/extract.py: `extract(text, pos, options)` for a position inside the text (`0 ≤ pos ≤ len`).
    The backward scan works on the reversed left part of the text. -/
namespace M

/-- `number(scanner)` after its first digit: more digits and at most one dot. Returns (what is left, consumed) -/
def numTail : Str → Bool → Str × Nat
  | [], _ => ([], 0)
  | c :: r, dot =>
    if c == 46 then (if dot then (c :: r, 0) else ((numTail r true).1, (numTail r true).2 + 1))
    else if isNumber c then ((numTail r dot).1, (numTail r dot).2 + 1)
    else (c :: r, 0)

/-- the backward loop: reversed left part, characters consumed so far, open `)` count → (consumed, braces) at the break -/
def backLoop (ws : Bool) : Nat → Str → Nat → Nat → Nat × Nat
  | 0, _, n, b => (n, b)
  | _+1, [], n, b => (n, b)                                   -- prev() = '' : break
  | f+1, c :: r, n, b =>
    if isNumber c then backLoop ws f (numTail r false).1 (n + 1 + (numTail r false).2) b
    else if c == 41 then backLoop ws f r (n + 1) (b + 1)
    else if c == 40 then (if b == 0 then (n, b) else backLoop ws f r (n + 1) (b - 1))
    else if (ws && isSpace c) || isSign c || isOperator c then backLoop ws f r (n + 1) b
    else (n, b)

/-- what the look-ahead may skip after a `)` at the position: more `)` and (when allowed) white space -/
def laCh (ws : Bool) (ch : Ch) : Bool := ch == 41 || (ws && isSpace ch)

/-- the end of the extracted range: the position, moved by the look-ahead across `)` and white space when the character at the
    position is `)` -/
def lookEnd (text : Str) (pos : Nat) (la ws : Bool) : Nat :=
  if la && text[pos]? == some 41 then pos + 1 + (spanP (laCh ws) (text.drop (pos + 1))).1.length else pos

def extract (text : Str) (pos : Nat) (la ws : Bool) : Option (Nat × Nat) :=
  let e := lookEnd text pos la ws
  let r := backLoop ws (e + 1) (text.take e).reverse 0 0
  if r.1 != 0 && r.2 == 0 then
    let start := e - r.1
    some (start + (spanP isSpace ((text.drop start).take r.1)).1.length, e)      -- leading white space trimmed
  else none

end M
