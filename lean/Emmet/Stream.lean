/-! Model of `emmet/output_stream.py` (class OutputStream) with ARBITRARY user callbacks and a ghost log of the callback calls.
    Run against the real class on random operation programs by the `stream` driver mode (tools/dom_stream.py). -/
namespace St
abbrev Str := List Nat

structure Opts where
  newline : Str
  baseIndent : Str
  indent : Str
  cbText : Str → Nat → Nat → Nat → Str                 -- output.text(text, offset, line, column)
  cbField : Nat → Str → Nat → Nat → Nat → Str          -- output.field(index, placeholder, offset, line, column)

structure Call where
  offset : Nat
  line : Nat
  column : Nat
  piece : Str

structure S where
  value : Str := []
  offset : Nat := 0
  line : Nat := 0
  column : Nat := 0
  level : Int := 0
  -- ghost
  log : List Call := []
  lastNL : Nat := 0        -- offset just after the last newline string
  nls : Nat := 0           -- number of `push_newline` so far

def S.raw (s : S) (piece : Str) : S :=
  { s with value := s.value ++ piece, offset := s.offset + piece.length, column := s.column + piece.length }
def S.push (o : Opts) (s : S) (text : Str) : S :=
  let piece := o.cbText text s.offset s.line s.column
  ({ s with log := ⟨s.offset, s.line, s.column, piece⟩ :: s.log }).raw piece
def S.pushField (o : Opts) (s : S) (i : Nat) (ph : Str) : S :=
  let piece := o.cbField i ph s.offset s.line s.column
  ({ s with log := ⟨s.offset, s.line, s.column, piece⟩ :: s.log }).raw piece
def rep (x : Str) : Nat → Str | 0 => [] | n+1 => x ++ rep x n
def S.pushIndent (o : Opts) (s : S) (size : Int) : S := s.push o (rep o.indent size.toNat)
def S.pushNewline (o : Opts) (s : S) (indent : Option (Option Int)) : S :=
  let s1 := s.push o (o.newline ++ o.baseIndent)
  let s2 := { s1 with line := s1.line + 1, column := o.baseIndent.length, lastNL := s.offset + o.newline.length, nls := s.nls + 1 }
  match indent with
  | none => s2
  | some none => s2.pushIndent o s2.level
  | some (some k) => if k == 0 then s2 else s2.pushIndent o k
def S.pushLines (o : Opts) (s : S) : List Str → S
  | [] => s
  | l :: ls => S.pushLines o ((s.pushNewline o (some none)).push o l) ls
def S.pushString (o : Opts) (s : S) (lines : List Str) : S :=        -- `lines` = value.splitlines()
  match lines with
  | [] => s
  | l :: ls => S.pushLines o (s.push o l) ls

/-- stream programs: what a formatter can do to the stream (its control flow may inspect the state) -/
inductive Prog
  | push (text : Str) | field (i : Nat) (ph : Str) | newline (ind : Option (Option Int)) | indent (k : Int)
  | string (lines : List Str) | level (d : Int)
  | seq (a b : Prog)
  | branch (c : S → Bool) (a b : Prog)

def Prog.run (o : Opts) : Prog → S → S
  | .push t, s => s.push o t
  | .field i ph, s => s.pushField o i ph
  | .newline ind, s => s.pushNewline o ind
  | .indent k, s => s.pushIndent o k
  | .string ls, s => s.pushString o ls
  | .level d, s => { s with level := s.level + d }
  | .seq a b, s => b.run o (a.run o s)
  | .branch c a b, s => if c s then a.run o s else b.run o s

end St
