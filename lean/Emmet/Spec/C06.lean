import Emmet.Css.Style
/-! spec-side definitions for C06 (shared by the theorem and the driver's self-check) -/
namespace EmmetProps
open CA

def insertKey (k : Str) : List Str → List Str
  | [] => [k]
  | x :: xs => if strLt k x then k :: x :: xs else x :: insertKey k xs
/-- the keys in the order `convert_snippets` leaves them (sorted by key; the driver's `selfcheck` mode compares this with the
    order of `CA.convertSnippets` on every run) -/
def sortedKeys (tbl : List (Str × Str)) : List Str := tbl.foldl (fun acc kv => insertKey kv.1 acc) []
def keysReachable (ks : List Str) : Bool :=
  (List.range ks.length).all (fun i => findBest (ks.getD i []) ks (0, 1) true == some i)

/-- link between the theorem's key list and the model's converted table (evaluated by the driver on every run) -/
def keyOrderAgrees : Bool :=
  match convertSnippets Gen.cssSnippets with
  | .ok a => a.toList.map (fun s => s.key) == sortedKeys Gen.cssSnippets
  | .error _ => false

end EmmetProps
