/-! Model of emmet/extract_abbreviation (reader.py, is_html.py, __init__.py). The backward scanner is modelled on the
    REVERSED prefix: `left` = characters before the cursor, nearest first. `pos` is recovered as `left.length + start`. -/
namespace X
abbrev Ch := Nat
abbrev Str := List Ch

def isAlpha (ch : Ch) : Bool := (97 ≤ ch && ch ≤ 122) || (65 ≤ ch && ch ≤ 90)
def isNumber (ch : Ch) : Bool := 48 ≤ ch && ch ≤ 57
def isQuote (ch : Ch) : Bool := ch == 34 || ch == 39
def specialChars : Str := "#.*:$-_!@%^+>/".toList.map Char.toNat
def isAbbreviation (ch : Ch) : Bool := isAlpha ch || isNumber ch || specialChars.contains ch
def isOpenBrace (ch : Ch) (markup : Bool) : Bool := ch == 40 || (markup && (ch == 91 || ch == 123))
def isCloseBrace (ch : Ch) (markup : Bool) : Bool := ch == 41 || (markup && (ch == 93 || ch == 125))
def bracePair (o : Ch) : Ch := if o == 91 then 93 else if o == 40 then 41 else 125

-- is_html.py
def isIdent (ch : Ch) : Bool := ch == 58 || ch == 45 || isAlpha ch || isNumber ch
def isWs (ch : Ch) : Bool := ch == 32 || ch == 9
def isUnquotedValue (ch : Ch) : Bool := ch != 61 && ch != 62 && !isWs ch && !isQuote ch
def isOpenBracket (ch : Ch) : Bool := ch == 123 || ch == 40 || ch == 91
def isCloseBracket (ch : Ch) : Bool := ch == 125 || ch == 41 || ch == 93

def dropWhile' (p : Ch → Bool) : Str → Str × Nat
  | x :: xs => if p x then let (r, n) := dropWhile' p xs; (r, n + 1) else (x :: xs, 0)
  | [] => ([], 0)

/-- `consume_ident`: (rest, consumed?) -/
def consumeIdent (l : Str) : Str × Bool := let (r, n) := dropWhile' isIdent l; (r, n > 0)

/-- `consume_quoted`: previous() must be a quote; then walk back to the same quote not preceded by a backslash -/
def quotedLoop (q : Ch) : Str → Option Str
  | [] => none
  | x :: xs =>
    if x == q then
      match xs with
      | 92 :: _ => quotedLoop q xs          -- peek() == '\\' → keep going
      | _ => some xs
    else quotedLoop q xs
def consumeQuoted : Str → Option Str
  | q :: xs => if isQuote q then quotedLoop q xs else none
  | [] => none

/-- `consume_attribute_with_unquoted_value` -/
def unquotedLoop : Str → List Ch → Nat → Str × Nat
  | [], _, n => ([], n)
  | ch :: xs, stack, n =>
    if isCloseBracket ch then unquotedLoop xs (ch :: stack) (n + 1)
    else if isOpenBracket ch then
      match stack with
      | top :: rest => if top == bracePair ch then unquotedLoop xs rest (n + 1) else (ch :: xs, n)
      | [] => (ch :: xs, n)
    else if !isUnquotedValue ch then (ch :: xs, n)
    else unquotedLoop xs stack (n + 1)
def consumeAttrUnquoted (l : Str) : Option Str :=
  let (r, n) := unquotedLoop l [] 0
  if n > 0 then
    match r with
    | 61 :: r1 => let (r2, ok) := consumeIdent r1; if ok then some r2 else none
    | _ => none
  else none
def consumeAttrQuoted (l : Str) : Option Str :=
  match consumeQuoted l with
  | some r =>
    match r with
    | 61 :: r1 => let (r2, ok) := consumeIdent r1; if ok then some r2 else none
    | _ => none
  | none => none
def consumeAttribute (l : Str) : Option Str := (consumeAttrQuoted l) <|> (consumeAttrUnquoted l)

/-- `is_html(scanner)`; `l` is the reversed text left of the cursor (down to the scanner's `start` bound) -/
def isHtmlLoop : Nat → Str → Bool
  | 0, _ => false
  | _+1, [] => false
  | fuel+1, l =>
    let (l1, _) := dropWhile' isWs l
    let (l2, gotIdent) := consumeIdent l1
    if gotIdent then
      match l2 with
      | 47 :: r => (match r with | 60 :: _ => true | _ => false)        -- `/` then must be `<`
      | 60 :: _ => true
      | x :: r =>
        if isWs x then isHtmlLoop fuel r                                  -- boolean attribute
        else if x == 61 then
          let (r2, ok) := consumeIdent r
          if ok then isHtmlLoop fuel r2 else false
        else match consumeAttrUnquoted l2 with        -- identifier was part of an unquoted value: keep looking for the tag start
          | some r2 => isHtmlLoop fuel r2
          | none => false
      | [] => false
    else
      match consumeAttribute l1 with
      | some r => isHtmlLoop fuel r
      | none => false
def isHtml : Str → Bool
  | 62 :: r =>
    let r1 := match r with | 47 :: r' => r' | _ => r
    isHtmlLoop (r1.length + 1) r1
  | _ => false

/-- main backward loop of `extract_abbreviation`; returns the remaining left part and the bracket stack -/
def mainLoop (markup : Bool) : Nat → Str → List Ch → Str × List Ch
  | 0, l, st => (l, st)
  | _+1, [], st => ([], st)
  | fuel+1, ch :: xs, st =>
    let inCurly := st.contains 125
    if inCurly && ch == 125 then mainLoop markup fuel xs (ch :: st)
    else if inCurly && ch != 123 then mainLoop markup fuel xs st
    else if isCloseBrace ch markup then mainLoop markup fuel xs (ch :: st)
    else if isOpenBrace ch markup then
      match st with
      | top :: rest => if top == bracePair ch then mainLoop markup fuel xs rest else (ch :: xs, rest)   -- stack.pop() happened
      | [] => (ch :: xs, [])
    else if st.contains 93 || st.contains 125 then mainLoop markup fuel xs st
    else if isHtml (ch :: xs) || !isAbbreviation ch then (ch :: xs, st)
    else mainLoop markup fuel xs st

structure Opts where
  markup : Bool := true
  lookAhead : Bool := true
  pfx : Str := []

structure Result where
  abbreviation : Str
  location : Nat
  start : Nat
  stop : Nat
  deriving Repr

/-- `offset_past_auto_closed` -/
def offsetPast (right : Str) (markup : Bool) : Nat :=
  let (r1, n1) := match right with | q :: r => if isQuote q then (r, 1) else (right, 0) | [] => ([], 0)
  let (_, n2) := dropWhile' (fun ch => isCloseBrace ch markup) r1
  n1 + n2

/-- `get_start_offset`: scan left for the prefix, skipping `[..]` and `{..}` pairs. Works on the reversed left part,
    returns the number of characters to the LEFT of the found position (i.e. the offset), or none. -/
def consumePair (close open_ : Ch) : Str → Option Str
  | c :: xs =>
    if c == close then
      let rec find : Str → Option Str
        | [] => none
        | y :: ys => if y == open_ then some ys else find ys
      find xs
    else none
  | [] => none
def consumeListRev (rp : Str) (l : Str) : Option Str :=     -- rp = reversed prefix
  match rp, l with
  | [], r => some r
  | p :: ps, x :: xs => if p == x then consumeListRev ps xs else none
  | _ :: _, [] => none
def startOffsetLoop (rp : Str) : Nat → Str → Option Nat
  | 0, _ => none
  | fuel+1, l =>
    match l with
    | [] => none
    | x :: xs =>
      match (consumePair 93 91 (x :: xs)) <|> (consumePair 125 123 (x :: xs)) with
      | some r => startOffsetLoop rp fuel r
      | none =>
        match consumeListRev rp (x :: xs) with
        | some _ => some (x :: xs).length                     -- result = scanner.pos before consuming
        | none => startOffsetLoop rp fuel xs

def stripLeading (s : Str) : Str :=
  match s with
  | x :: xs => if x == 42 || x == 43 || x == 62 || x == 94 then stripLeading xs else s
  | [] => []

/-- `extract_abbreviation(line, pos, options)` -/
def extract (line : Str) (pos : Int) (o : Opts) : Option Result :=
  let p0 : Nat := (min (line.length : Int) (max 0 pos)).toNat
  let p := if o.lookAhead then p0 + offsetPast (line.drop p0) o.markup else p0
  let left := (line.take p).reverse
  let start? : Option Nat :=
    if o.pfx.isEmpty then some 0
    else
      -- NB: consume_list needs the whole prefix left of the position and `not sol()` for each char
      startOffsetLoop o.pfx.reverse (left.length + 1) left
  match start? with
  | none => none
  | some start =>
    let bounded := left.take (p - start)                 -- scanner stops at `start`
    let (rest, stack) := mainLoop o.markup (bounded.length + 1) bounded []
    let scanPos := start + rest.length
    if stack.isEmpty && scanPos != p then
      let raw := (line.take p).drop scanPos
      let abbr := stripLeading raw
      let st := if o.pfx.isEmpty then p - abbr.length else start - o.pfx.length
      some ⟨abbr, p - abbr.length, st, p⟩
    else none

end X
