import Emmet.Abbr.Tok
/-! Model of emmet/abbreviation/parser/__init__.py (TokenScanner on the remaining-suffix representation). -/
namespace T

inductive PErr
  | scanner (pos : Nat)
  | token (pos : Option Nat)
  | internal (tag : String)
  | fuel
  deriving Repr

abbrev PM := Except PErr

structure TokenAttribute where
  name : Option (List Tok) := none
  value : Option (List Tok) := none
  expression : Bool := false
  multiple : Bool := false
  deriving Repr

inductive TNode
  | elem (name : Option (List Tok)) (attrs : Option (List TokenAttribute)) (value : Option (List Tok))
         (rep : Option Tok) (selfClose : Bool) (elements : List TNode)
  | group (elements : List TNode) (rep : Option Tok)
  deriving Repr

def isBracket (t : Tok) (k : Option BrCtx) (o : Option Bool) : Bool :=
  match t.tok with
  | .bracket isOpen ctx => (match k with | none => true | some k => ctx == k) && (match o with | none => true | some o => isOpen == o)
  | _ => false
def isOperator (t : Tok) (k : Option OpKind) : Bool :=
  match t.tok with | .operator op => (match k with | none => true | some k => op == k) | _ => false
def isQuoteTok (t : Tok) (single : Option Bool) : Bool :=
  match t.tok with | .quote s => (match single with | none => true | some x => s == x) | _ => false
def isWhiteSpaceTok (t : Tok) : Bool := match t.tok with | .whiteSpace _ => true | _ => false
def isRepeater (t : Tok) : Bool := match t.tok with | .repeater _ _ => true | _ => false
def isLiteral (t : Tok) : Bool := match t.tok with | .literal _ => true | _ => false
def isElementNameTok (t : Tok) : Bool :=
  match t.tok with | .literal _ | .repeaterNumber .. | .repeaterPlaceholder => true | _ => false
/-- `bool(token.value) and 'A' <= token.value[0] <= 'Z'` -/
def isCapitalizedLiteral (t : Tok) : PM Bool :=
  match t.tok with
  | .literal [] => .ok false
  | .literal (x :: _) => .ok (65 ≤ x && x ≤ 90)
  | _ => .ok false

def tokErr (t : Option Tok) : PErr := .token (t.map (·.start))

/-- `literal(scanner, allow_brackets)`: consumed tokens (possibly none) and the rest -/
def pLiteral (allow : Bool) : List Tok → Int → Int → Int → List Tok → List Tok × List Tok
  -- rest, brackets[attribute], brackets[expression], brackets[group], consumed(rev)
  | [], _, _, _, acc => (acc.reverse, [])
  | t :: ts, ba, be, bg, acc =>
    if be != 0 then
      match t.tok with
      | .bracket isOpen .expression => pLiteral allow ts ba (be + (if isOpen then 1 else -1)) bg (t :: acc)
      | _ => pLiteral allow ts ba be bg (t :: acc)
    else if isQuoteTok t none || isOperator t none || isWhiteSpaceTok t || isRepeater t then (acc.reverse, t :: ts)
    else match t.tok with
      | .bracket isOpen k =>
        if !allow then (acc.reverse, t :: ts)
        else
          let cur : Int := match k with | .attribute => ba | .expression => be | .group => bg
          if isOpen then
            match k with
            | .attribute => pLiteral allow ts (ba + 1) be bg (t :: acc)
            | .expression => pLiteral allow ts ba (be + 1) bg (t :: acc)
            | .group => pLiteral allow ts ba be (bg + 1) (t :: acc)
          else if cur == 0 then (acc.reverse, t :: ts)
          else
            match k with
            | .attribute => pLiteral allow ts (ba - 1) be bg (t :: acc)
            | .expression => pLiteral allow ts ba (be - 1) bg (t :: acc)
            | .group => pLiteral allow ts ba be (bg - 1) (t :: acc)
      | _ => pLiteral allow ts ba be bg (t :: acc)

/-- `quoted(scanner)` -/
def quotedLoop (single : Bool) : List Tok → List Tok → Option (List Tok × List Tok)
  | [], _ => none
  | t :: ts, acc => if isQuoteTok t (some single) then some ((t :: acc).reverse, ts) else quotedLoop single ts (t :: acc)
def pQuoted : List Tok → PM (Option (List Tok × List Tok))
  | q :: ts =>
    match q.tok with
    | .quote single =>
      match quotedLoop single ts [q] with
      | some r => .ok (some r)
      | none => .error (tokErr (some q))        -- 'Unclosed quote', quote token
    | _ => .ok none
  | [] => .ok none

/-- `text(scanner)`: consumed tokens including the braces -/
def textLoop : List Tok → Nat → List Tok → List Tok × List Tok
  | [], _, acc => (acc.reverse, [])
  | t :: ts, depth, acc =>
    match t.tok with
    | .bracket isOpen .expression =>
      if isOpen then textLoop ts (depth + 1) (t :: acc)
      else if depth == 0 then ((t :: acc).reverse, ts)
      else textLoop ts (depth - 1) (t :: acc)
    | _ => textLoop ts depth (t :: acc)
def pText : List Tok → Option (List Tok × List Tok)
  | t :: ts => if isBracket t (some .expression) (some true) then some (textLoop ts 0 [t]) else none
  | [] => none
/-- `get_text(scanner)`: drop the opening brace and a closing brace if it is the last token -/
def getText (consumed : List Tok) : List Tok :=
  let body := match consumed with
    | t :: ts => if isBracket t (some .expression) (some true) then ts else t :: ts
    | [] => []
  -- Python indexes tokens[end-1] of the whole slice, start is already bumped only if first is `{`
  match consumed.getLast? with
  | some l => if isBracket l (some .expression) (some false) then body.dropLast else body
  | none => body

def mkLiteral (s : String) : Tok := ⟨.literal (s.toList.map Char.toNat), 0, 0⟩   -- span None in Python

/-- `short_attribute(scanner, type, options)` -/
def dropOps (k : OpKind) : List Tok → Nat → Nat × List Tok
  | t :: ts, n => if isOperator t (some k) then dropOps k ts (n + 1) else (n, t :: ts)
  | [], n => (n, [])
def pShortAttribute (k : OpKind) (nm : String) (jsx : Bool) : List Tok → Option (TokenAttribute × List Tok)
  | t :: ts =>
    if isOperator t (some k) then
      let (count, r) := dropOps k ts 1
      let base : TokenAttribute := { name := some [mkLiteral nm], multiple := count > 1 }
      match (if jsx then pText r else none) with
      | some (consumed, r2) => some ({ base with value := some (getText consumed), expression := true }, r2)
      | none =>
        let (lit, r2) := pLiteral false r 0 0 0 []
        some ({ base with value := if lit.isEmpty then none else some lit }, r2)
    else none
  | [] => none

/-- `attribute(scanner)` -/
def pAttribute (ts : List Tok) : PM (Option (TokenAttribute × List Tok)) := do
  match ← pQuoted ts with
  | some (consumed, r) => return some ({ value := some consumed }, r)
  | none =>
    let (name, r) := pLiteral true ts 0 0 0 []
    if name.isEmpty then return none
    match r with
    | e :: r1 =>
      if isOperator e (some .equal) then
        match ← pQuoted r1 with
        | some (v, r2) => return some ({ name := some name, value := some v }, r2)
        | none =>
          let (v, r2) := pLiteral true r1 0 0 0 []
          if v.isEmpty then return some ({ name := some name }, r1)
          else return some ({ name := some name, value := some v }, r2)
      else return some ({ name := some name }, r)
    | [] => return some ({ name := some name }, r)

/-- `attribute_set(scanner)` -/
def attrSetLoop : Nat → List Tok → List TokenAttribute → PM (List TokenAttribute × List Tok)
  | 0, _, _ => .error .fuel
  | _+1, [], acc => .ok (acc.reverse, [])
  | fuel+1, t :: ts, acc => do
    match ← pAttribute (t :: ts) with
    | some (a, r) => attrSetLoop fuel r (a :: acc)
    | none =>
      if isBracket t (some .attribute) (some false) then return (acc.reverse, ts)
      else if isWhiteSpaceTok t then attrSetLoop fuel ts acc
      else .error (tokErr (some t))
def pAttributeSet : List Tok → PM (Option (List TokenAttribute × List Tok))
  | t :: ts =>
    if isBracket t (some .attribute) (some true) then do
      let r ← attrSetLoop (ts.length + 1) ts []
      return some r
    else return none
  | [] => return none

/-- `element_name(scanner, options)` -/
def jsxNameLoop : Nat → List Tok → List Tok → PM (List Tok × List Tok)
  | 0, _, _ => .error .fuel
  | _+1, [], acc => .ok (acc, [])
  | fuel+1, d :: ts, acc =>
    if isOperator d (some .cls) then
      match ts with
      | l :: ts2 => do
        if ← isCapitalizedLiteral l then jsxNameLoop fuel ts2 (acc ++ [d, l]) else return (acc, d :: ts)
      | [] => return (acc, d :: ts)
    else return (acc, d :: ts)
def nameLoop : List Tok → List Tok → List Tok × List Tok
  | t :: ts, acc => if isElementNameTok t then nameLoop ts (t :: acc) else (acc.reverse, t :: ts)
  | [], acc => (acc.reverse, [])
def pElementName (jsx : Bool) (ts : List Tok) : PM (List Tok × List Tok) := do
  let (pre, r) ← (match ts with
    | t :: ts1 =>
      if jsx then do
        if ← isCapitalizedLiteral t then jsxNameLoop (ts1.length + 1) ts1 [t] else pure ([], ts)
      else pure ([], ts)
    | [] => pure ([], ts) : PM (List Tok × List Tok))
  let (more, r2) := nameLoop r []
  return (pre ++ more, r2)

structure ElemAcc where
  name : Option (List Tok) := none
  attrs : Option (List TokenAttribute) := none
  value : Option (List Tok) := none
  rep : Option Tok := none
  selfClose : Bool := false

def ElemAcc.isEmpty (e : ElemAcc) : Bool := e.name.isNone && e.value.isNone && e.attrs.isNone

/-- the `while` loop of `element()` -/
def elemLoop (jsx : Bool) : Nat → List Tok → ElemAcc → PM (ElemAcc × List Tok)
  | 0, _, _ => .error .fuel
  | _+1, [], e => .ok (e, [])
  | fuel+1, t :: ts, e => do
    if e.rep.isNone && !e.isEmpty && isRepeater t then elemLoop jsx fuel ts { e with rep := some t }
    else
      match (if e.value.isNone then pText (t :: ts) else none) with
      | some (consumed, r) => elemLoop jsx fuel r { e with value := some (getText consumed) }
      | none =>
        -- attr = short_attribute(id) or short_attribute(class) or attribute_set()
        let attr : Option (List TokenAttribute × List Tok) ←
          (match pShortAttribute .id "id" jsx (t :: ts) with
           | some (a, r) => pure (some ([a], r))
           | none =>
             match pShortAttribute .cls "class" jsx (t :: ts) with
             | some (a, r) => pure (some ([a], r))
             | none => pAttributeSet (t :: ts) : PM _)
        match attr with
        | some (as, r) =>
          elemLoop jsx fuel r { e with attrs := some ((e.attrs.getD []) ++ as) }
        | none =>
          if !e.isEmpty && isOperator t (some .close) then
            let e1 := { e with selfClose := true }
            match ts with
            | rp :: ts2 => if e1.rep.isNone && isRepeater rp then return ({ e1 with rep := some rp }, ts2) else return (e1, ts)
            | [] => return (e1, ts)
          else return (e, t :: ts)

def optRepeater : List Tok → Option Tok × List Tok
  | t :: ts => if isRepeater t then (some t, ts) else (none, t :: ts)
  | [] => (none, [])

/-- zipper frames for `statements()` (ctx / stack) -/
inductive Hdr
  | root
  | elem (name : Option (List Tok)) (attrs : Option (List TokenAttribute)) (value : Option (List Tok)) (rep : Option Tok) (selfClose : Bool)
  | grp (rep : Option Tok)
structure Frame where
  hdr : Hdr
  kids : List TNode
def Frame.push (f : Frame) (n : TNode) : Frame := { f with kids := f.kids ++ [n] }
def closeFrame (f : Frame) : TNode :=
  match f.hdr with
  | .elem n a v r s => .elem n a v r s f.kids
  | .grp r => .group f.kids r
  | .root => .group f.kids none
def frameOf : TNode → Frame
  | .elem n a v r s ks => ⟨.elem n a v r s, ks⟩
  | .group ks r => ⟨.grp r, ks⟩
def closeAll : Frame → List Frame → List TNode
  | cur, [] => cur.kids
  | cur, p :: above => closeAll (p.push (closeFrame cur)) above
def climbs : List Tok → Frame → List Frame → Frame × List Frame × List Tok
  | t :: ts, cur, above =>
    if isOperator t (some .climb) then
      match above with
      | p :: ab => climbs ts (p.push (closeFrame cur)) ab
      | [] => climbs ts cur []
    else (cur, above, t :: ts)
  | [], cur, above => (cur, above, [])

mutual
def pItem (jsx : Bool) : Nat → List Tok → PM (Option (TNode × List Tok))
  | 0, _ => .error .fuel
  | fuel+1, ts => do
    -- element(scanner, options)
    let (name, r) ← pElementName jsx ts
    let e0 : ElemAcc := { name := if name.isEmpty then none else some name }
    let (e, r1) ← elemLoop jsx (r.length + 1) r e0
    if !e.isEmpty then return some (.elem e.name e.attrs e.value e.rep e.selfClose [], r1)
    -- group(scanner, options)   (element consumed nothing when it is empty)
    match ts with
    | g :: ts1 =>
      if isBracket g (some .group) (some true) then
        let (kids, r2) ← pStatements jsx fuel ts1 ⟨.root, []⟩ []
        match r2 with
        | c :: r3 =>
          if isBracket c (some .group) (some false) then
            let (rp, r4) := optRepeater r3
            return some (.group kids rp, r4)
          else return some (.group kids none, r3)        -- scanner.next() consumes it anyway
        | [] => return some (.group kids none, [])
      else return none
    | [] => return none

def pStatements (jsx : Bool) : Nat → List Tok → Frame → List Frame → PM (List TNode × List Tok)
  | 0, _, _, _ => .error .fuel
  | _+1, [], cur, above => .ok (closeAll cur above, [])
  | fuel+1, t :: ts, cur, above => do
    match ← pItem jsx fuel (t :: ts) with
    | none => return (closeAll cur above, t :: ts)
    | some (node, r) =>
      match r with
      | o :: r1 =>
        if isOperator o (some .child) then pStatements jsx fuel r1 (frameOf node) (cur :: above)
        else if isOperator o (some .sibling) then pStatements jsx fuel r1 (cur.push node) above
        else if isOperator o (some .climb) then
          let (cur', above', r2) := climbs (o :: r1) (cur.push node) above
          pStatements jsx fuel r2 cur' above'
        else pStatements jsx fuel r (cur.push node) above
      | [] => return (closeAll (cur.push node) above, [])
end

/-- `parse(abbr, options)` of the parser module -/
def parseTokens (jsx : Bool) (ts : List Tok) : PM (List TNode) := do
  let (kids, r) ← pStatements jsx (2 * ts.length + 2) ts ⟨.root, []⟩ []
  match r with
  | t :: _ => .error (tokErr (some t))
  | [] => return kids

end T
