import Emmet.Abbr.Parser
/-! Model of emmet/abbreviation/convert.py + stringify.py (alias-free, explicit state). -/
namespace T

inductive VTok | str (s : Str) | field (name : Str) (index : Nat) deriving Repr
structure Rep where
  count : Nat
  value : Nat
  implicit : Bool
  deriving Repr
inductive VT | raw | singleQuote | doubleQuote | expression deriving Repr, DecidableEq
structure AAttr where
  name : Option Str
  value : Option (List VTok)
  valueType : VT
  boolean : Bool
  implied : Bool
  multiple : Bool
  deriving Repr
inductive ANode
  | mk (name : Option Str) (value : Option (List VTok)) (attrs : Option (List AAttr)) (children : List ANode)
       (rep : Option Rep) (selfClosing : Bool)
  deriving Repr

inductive TextArg | none | str (s : Str) | lines (ls : List Str) deriving Repr

structure CState where
  inserted : Bool := false
  text : TextArg := .none
  cleanText : List Str := []
  guard : Int := 1000000
  repeaters : List Rep := []          -- top of the stack is the LAST element, as in Python
  variables : Option (List (Str × Str)) := none
  textInserted : Bool := false

def pyIsSpace (ch : Ch) : Bool :=
  ch == 9 || ch == 10 || ch == 11 || ch == 12 || ch == 13 || (28 ≤ ch && ch ≤ 32) || ch == 133 || ch == 160
def lstrip : Str → Str
  | x :: xs => if pyIsSpace x then lstrip xs else x :: xs
  | [] => []
def strip (s : Str) : Str := (lstrip (lstrip s).reverse).reverse
def joinNl : List Str → Str
  | [] => []
  | [a] => a
  | a :: rest => a ++ [10] ++ joinNl rest

def repOfTok (t : Tok) : Rep :=
  match t.tok with
  | .repeater count implicit => ⟨count, 0, implicit⟩
  | _ => ⟨1, 0, false⟩

/-- `ConvertState.get_text(pos)` -/
def getTextAt (st : CState) (pos : Option Nat) : PM (Str × CState) :=
  let st' := { st with textInserted := true }
  match st.text with
  | .lines ls =>
    match pos with
    | some p =>
      if p < st.cleanText.length then .ok (strip (st.cleanText.getD p []), st')
      else match ls[p]? with
        | some l => .ok (l, st')
        | none => .error (.internal "IndexError")
    | none => .ok (joinNl ls, st')
  | .str s => .ok (s, st')
  | .none => .ok ([], st')

def getVariable (st : CState) (name : Str) : Option Str :=
  match st.variables with
  | some vs => if vs.isEmpty then some name else some (((vs.find? (·.1 == name)).map (·.2)).getD name)   -- `.get(name, name)`
  | none => some name

def natToStr (n : Nat) : Str := (toString n).toList.map Char.toNat

/-- `stringify(token, state)`: Python may return `None`; may mutate the state. -/
def stringifyTok (t : Tok) (st : CState) : PM (Option Str × CState) :=
  match t.tok with
  | .literal v => .ok (some v, st)
  | .quote single => .ok (some [if single then 39 else 34], st)
  | .bracket isOpen k =>
    .ok (some [match k with
      | .attribute => if isOpen then 91 else 93
      | .expression => if isOpen then 123 else 125
      | .group => if isOpen then 40 else 41], st)
  | .operator op =>
    .ok (some [match op with | .child => 62 | .cls => 46 | .climb => 94 | .id => 35 | .equal => 61 | .close => 47 | .sibling => 43], st)
  | .field name index =>
    match index with
    | some i =>
      if name.isEmpty then .ok (some ([36, 123] ++ natToStr i ++ [125]), st)
      else .ok (some ([36, 123] ++ natToStr i ++ [58] ++ name ++ [125]), st)
    | none => if name.isEmpty then .ok (some [], st) else .ok (getVariable st name, st)
  | .repeaterPlaceholder =>
    let st1 := { st with inserted := true }
    match st.repeaters.reverse.find? (·.implicit) with
    | some r => do
      let (s, st2) ← getTextAt st1 (some r.value)
      return (some s, st2)
    | none => do                                            -- no implicit repeater: the whole text (`get_text(None)`)
      let (s, st2) ← getTextAt st1 none
      return (some s, st2)
  | .repeaterNumber size reverse base parent =>
    let value : Int :=
      match st.repeaters.getLast? with
      | none => 1
      | some r =>
        let v : Int := if reverse then (base : Int) + r.count - r.value - 1 else (base : Int) + r.value
        if parent != 0 then
          let lastIx := st.repeaters.length - 1
          let parentIx := lastIx - parent          -- max(0, last_ix - parent) on naturals
          if parentIx != lastIx then v + r.count * ((st.repeaters.getD parentIx ⟨0,0,false⟩).value : Int) else v
        else v
    let s := (toString value).toList.map Char.toNat
    .ok (some (List.replicate (size - s.length) 48 ++ s), st)
  | .whiteSpace v => .ok (some v, st)
  | .repeater _ _ => .error (.internal "Exception")

/-- `''.join([...])` over possibly-`None` pieces -/
def joinOpt : List (Option Str) → PM Str
  | [] => .ok []
  | none :: _ => .error (.internal "TypeError")
  | some s :: rest => do return s ++ (← joinOpt rest)

def stringifyList : List Tok → CState → PM (List (Option Str) × CState)
  | [], st => .ok ([], st)
  | t :: ts, st => do
    let (s, st1) ← stringifyTok t st
    let (rest, st2) ← stringifyList ts st1
    return (s :: rest, st2)

def stringifyName (ts : List Tok) (st : CState) : PM (Str × CState) := do
  let (ps, st1) ← stringifyList ts st
  return (← joinOpt ps, st1)

def isFieldTok (t : Tok) : Option (Str × Nat) :=
  match t.tok with | .field name (some i) => some (name, i) | _ => none

/-- `stringify_value` -/
def stringifyValueLoop : List Tok → CState → List (Option Str) → List VTok → PM (List VTok × CState)
  | [], st, accum, res => do
    if accum.isEmpty then return (res.reverse, st)
    else return ((VTok.str (← joinOpt accum.reverse) :: res).reverse, st)
  | t :: ts, st, accum, res =>
    match isFieldTok t with
    | some (name, i) => do
      if accum.isEmpty then stringifyValueLoop ts st [] (.field name i :: res)
      else
        let s ← joinOpt accum.reverse
        stringifyValueLoop ts st [] (.field name i :: .str s :: res)
    | none => do
      let (s, st1) ← stringifyTok t st
      stringifyValueLoop ts st1 (s :: accum) res
def stringifyValue (ts : List Tok) (st : CState) : PM (List VTok × CState) := stringifyValueLoop ts st [] []

/-- `create_attribute` + `convert_attribute` -/
def convertAttribute (a : TokenAttribute) (st : CState) : PM (AAttr × CState) := do
  let (name0, st1) ← (match a.name with
    | some (t :: ts) => do let (s, st') ← stringifyName (t :: ts) st; pure (some s, st')
    | _ => pure (none, st) : PM (Option Str × CState))
  let vt0 : VT := if a.expression then .expression else .raw
  -- boolean / implied flags
  let (name, boolean, implied) ← (match name0 with
    | some (c0 :: cs) =>
      let nm := c0 :: cs
      let (nm1, b) := if nm.getLast? == some 46 then (nm.dropLast, true) else (nm, false)
      match nm1 with
      | [] => pure (some [], b, false)                           -- `if name and name[0] == '!'`: an empty name stays
      | h :: tl => if h == 33 then pure (some tl, b, true) else pure (some nm1, b, false)
    | other => pure (other, false, false) : PM (Option Str × Bool × Bool))
  match a.value with
  | some (v0 :: vs) =>
    let toks := v0 :: vs
    match v0.tok with
    | .quote single =>
      let body := match vs.getLast? with
        | some l => if isQuoteTok l none then vs.dropLast else vs
        | none => vs
      let (val, st2) ← stringifyValue body st1
      return (⟨name, some val, if single then .singleQuote else .doubleQuote, boolean, implied, a.multiple⟩, st2)
    | _ =>
      if isBracket v0 (some .expression) (some true) then
        let body := match vs.getLast? with
          | some l => if isBracket l (some .expression) (some false) then vs.dropLast else vs
          | none => vs
        let (val, st2) ← stringifyValue body st1
        return (⟨name, some val, .expression, boolean, implied, a.multiple⟩, st2)
      else
        let (val, st2) ← stringifyValue toks st1
        return (⟨name, some val, vt0, boolean, implied, a.multiple⟩, st2)
  | _ => return (⟨name, none, vt0, boolean, implied, a.multiple⟩, st1)

def convertAttributes : List TokenAttribute → CState → PM (List AAttr × CState)
  | [], st => .ok ([], st)
  | a :: as, st => do
    let (x, st1) ← convertAttribute a st
    let (xs, st2) ← convertAttributes as st1
    return (x :: xs, st2)

def ANode.children : ANode → List ANode | .mk _ _ _ c _ _ => c
def ANode.rep : ANode → Option Rep | .mk _ _ _ _ r _ => r

/-- `insert_text(deepest_node(node), text)` -/
def insertTextValue (v : Option (List VTok)) (text : Str) : Option (List VTok) :=
  match v with
  | some (x :: xs) =>
    let l := x :: xs
    match l.getLast? with
    | some (.str s) => some (l.dropLast ++ [.str (s ++ text)])
    | _ => some (l ++ [.str text])
  | _ => some [.str text]

def insertDeepest : Nat → ANode → Str → ANode
  | 0, n, _ => n
  | fuel+1, .mk name value attrs children rep sc, text =>
    match children.getLast? with
    | some last => .mk name value attrs (children.dropLast ++ [insertDeepest fuel last text]) rep sc
    | none => .mk name (insertTextValue value text) attrs children rep sc

def ANode.depth : ANode → Nat
  | .mk _ _ _ children _ _ => 1 + (children.attach.map (fun ⟨c, _⟩ => c.depth)).foldl max 0

def attachRepeater (items : List ANode) (r : Rep) : List ANode :=
  items.map fun | .mk n v a c rep sc => .mk n v a c (match rep with | some x => some x | none => some r) sc

def hasField (v : List VTok) : Bool := v.any fun | .field .. => true | _ => false

/-- `node.repeat` of a token-tree node -/
def TNode.rep? : TNode → Option Tok
  | .elem _ _ _ r _ _ => r
  | .group _ r => r

/-- body of one iteration of the repeat loop: convert one copy (through `conv`), insert the wrap text for an implicit
    repeater without placeholder, pay the guard -/
def repeatBody (conv : Option Rep → CState → PM (List ANode × CState)) (rep : Rep) (i : Nat) (st : CState) :
    PM (List ANode × CState) := do
  let cur : Rep := { rep with value := i }
  let st0 := { st with repeaters := st.repeaters.dropLast ++ [cur] }
  let (items, st1) ← conv (some cur) st0
  let (items', st2) ← (if cur.implicit && !st1.inserted then
      match items.getLast? with
      | none => pure (items, st1)                          -- `items[-1] if items else None`: nothing to insert into
      | some last => do
        let (tx, st') ← getTextAt st1 (some cur.value)
        pure (items.dropLast ++ [insertDeepest last.depth last tx], st')
    else pure (items, st1) : PM (List ANode × CState))
  return (items', { st2 with guard := st2.guard - 1 })

mutual
/-- `convert_statement(node, state)` -/
def convertStatement : Nat → TNode → CState → PM (List ANode × CState)
  | 0, _, _ => .error .fuel
  | fuel+1, node, st =>
    match node.rep? with
    | some rt =>
      let r0 := repOfTok rt
      let isLines := match st.text with | .lines _ => true | _ => false
      let count := if r0.implicit && isLines then st.cleanText.length else (if r0.count == 0 then 1 else r0.count)
      let rep : Rep := { r0 with count := count }
      do
        let (items, st1) ← repeatLoop fuel node rep 0 { st with repeaters := st.repeaters ++ [rep] } []
        let st2 := { st1 with repeaters := st1.repeaters.dropLast }
        return (items, if rep.implicit then { st2 with inserted := true } else st2)
    | none => convertOne fuel node none st

/-- the `while i < repeat.count` loop -/
def repeatLoop : Nat → TNode → Rep → Nat → CState → List ANode → PM (List ANode × CState)
  | 0, _, _, _, _, _ => .error .fuel
  | fuel+1, node, rep, i, st, acc =>
    if i < rep.count then do
      let (items', st3) ← repeatBody (fun cur s => convertOne fuel node cur s) rep i st
      if st3.guard ≤ 0 then return (acc ++ items', st3)
      else repeatLoop fuel node rep (i + 1) st3 (acc ++ items')
    else return (acc, st)

/-- `convert_group(node)` / `convert_element(node)` with `node.repeat` overridden by `cur` -/
def convertOne : Nat → TNode → Option Rep → CState → PM (List ANode × CState)
  | 0, _, _, _ => .error .fuel
  | fuel+1, .group elements _, cur, st => do
    let (items, st1) ← convertList fuel elements st
    match cur with
    | some r => return (attachRepeater items r, st1)
    | none => return (items, st1)
  | fuel+1, .elem name attrs value _ selfClose elements, cur, st => do
    let (nm, st1) ← (match name with
      | some (t :: ts) => do let (s, st') ← stringifyName (t :: ts) st; pure (some s, st')
      | _ => pure (none, st) : PM (Option Str × CState))
    let (val, st2) ← (match value with
      | some (t :: ts) => do let (v, st') ← stringifyValue (t :: ts) st1; pure (some v, st')
      | _ => pure (none, st1) : PM (Option (List VTok) × CState))
    let (kids, st3) ← convertList fuel elements st2
    let (as, st4) ← (match attrs with
      | some (a :: rest) => do let (x, st') ← convertAttributes (a :: rest) st3; pure (some x, st')
      | _ => pure (none, st3) : PM (Option (List AAttr) × CState))
    let nameFalsy := match nm with | none => true | some s => s.isEmpty
    let valTruthy := match val with | some (_ :: _) => true | _ => false
    if nameFalsy && as.isNone && valTruthy && !(hasField (val.getD [])) then
      return (.mk nm val as [] cur selfClose :: kids, st4)
    else return ([.mk nm val as kids cur selfClose], st4)

def convertList : Nat → List TNode → CState → PM (List ANode × CState)
  | 0, _, _ => .error .fuel
  | _+1, [], st => .ok ([], st)
  | fuel+1, n :: ns, st => do
    let (a, st1) ← convertStatement fuel n st
    let (b, st2) ← convertList fuel ns st1
    return (a ++ b, st2)
end

structure ConvParams where
  text : TextArg := .none
  variables : Option (List (Str × Str)) := none
  maxRepeat : Option Int := none

def TNode.size : TNode → Nat
  | .elem _ _ _ _ _ es => 1 + (es.attach.map (fun ⟨e, _⟩ => e.size)).foldl (· + ·) 0
  | .group es _ => 1 + (es.attach.map (fun ⟨e, _⟩ => e.size)).foldl (· + ·) 0

/-- `convert(abbr, params)` -/
def convert (roots : List TNode) (p : ConvParams) (fuelHint : Nat) : PM (List ANode) := do
  let clean := match p.text with | .lines ls => ls.filter (fun l => !(strip l).isEmpty) | _ => []
  let st : CState := { text := p.text, cleanText := clean, variables := p.variables,
                       guard := match p.maxRepeat with | some m => m | none => 1000000 }
  let (items, st1) ← convertList fuelHint roots st
  let hasText := match p.text with | .none => false | _ => true
  if hasText && !st1.textInserted then
    match items.getLast? with
    | none => return items                                  -- `and result.children`: nothing to insert into
    | some last =>
      let tx := match p.text with | .lines ls => strip (joinNl ls) | .str s => strip s | .none => []
      return items.dropLast ++ [insertDeepest last.depth last tx]
  else return items

/-- fuel for `convert`: every recursive call descends the tree or advances a repeater loop, and a loop runs at most as often as the
largest written count or the number of supplied lines -/
def convFuel (toks : List Tok) (p : ConvParams) : Nat :=
  4 * toks.length + 5000
    + toks.foldl (fun m t => match t.tok with | .repeater c _ => max m c | _ => m) 0
    + (match p.text with | .lines ls => ls.length | _ => 0)

end T
