/-! Model of emmet/abbreviation/tokenizer/__init__.py on the remaining-suffix representation. -/
namespace T

abbrev Ch := Nat
abbrev Str := List Ch

/-! leaf predicates (hand-written here; generated from the source in the real framework) -/
def c (x : Char) : Ch := x.toNat
def isNumber (ch : Ch) : Bool := 48 ≤ ch && ch ≤ 57              -- ASCII part of str.isdecimal
def isDigitPy (ch : Ch) : Bool := 48 ≤ ch && ch ≤ 57             -- ASCII part of str.isdigit
def isAlpha (ch : Ch) : Bool := (97 ≤ ch && ch ≤ 122) || (65 ≤ ch && ch ≤ 90)
def isAlphaWord (ch : Ch) : Bool := ch == 95 || isAlpha ch
def isAlphaNumericWord (ch : Ch) : Bool := isNumber ch || isAlphaWord ch
def isWhiteSpace (ch : Ch) : Bool := ch == 32 || ch == 9 || ch == 160
def isSpace (ch : Ch) : Bool := isWhiteSpace ch || ch == 10 || ch == 13
def isQuote (ch : Ch) : Bool := ch == 34 || ch == 39
def isElementName (ch : Ch) : Bool := isAlphaNumericWord ch || ch == 45 || ch == 58 || ch == 33

inductive BrCtx | group | attribute | expression deriving DecidableEq, Repr
inductive OpKind | child | sibling | climb | cls | id | close | equal deriving DecidableEq, Repr

def bracketType (ch : Ch) : Option BrCtx :=
  if ch == 40 || ch == 41 then some .group
  else if ch == 91 || ch == 93 then some .attribute
  else if ch == 123 || ch == 125 then some .expression
  else none
def isOpenBracket (ch : Ch) : Bool := ch == 123 || ch == 91 || ch == 40
def operatorType (ch : Ch) : Option OpKind :=
  if ch == 62 then some .child else if ch == 43 then some .sibling else if ch == 94 then some .climb
  else if ch == 46 then some .cls else if ch == 35 then some .id else if ch == 47 then some .close
  else if ch == 61 then some .equal else none

structure Ctx where
  grp : Int := 0
  attr : Int := 0
  expr : Int := 0
  quote : Option Ch := none
  deriving Repr

def Ctx.bump (x : Ctx) (k : BrCtx) (d : Int) : Ctx :=
  match k with
  | .group => { x with grp := x.grp + d }
  | .attribute => { x with attr := x.attr + d }
  | .expression => { x with expr := x.expr + d }

def isAllowedOperator (ch : Ch) (ctx : Ctx) : Bool :=
  match operatorType ch with
  | none => false
  | some op =>
    if ctx.quote.isSome || ctx.expr != 0 then false
    else ctx.attr == 0 || op == .equal
def isAllowedSpace (ch : Ch) (ctx : Ctx) : Bool := isSpace ch && ctx.expr == 0
def isAllowedRepeater (ch : Ch) (ctx : Ctx) : Bool := ch == 42 && ctx.attr == 0 && ctx.expr == 0

inductive Token
  | repeater (count : Nat) (implicit : Bool)
  | repeaterNumber (size : Nat) (reverse : Bool) (base : Nat) (parent : Nat)
  | repeaterPlaceholder
  | field (name : Str) (index : Option Nat)
  | operator (op : OpKind)
  | bracket (isOpen : Bool) (context : BrCtx)
  | quote (single : Bool)
  | literal (value : Str)
  | whiteSpace (value : Str)
  deriving Repr

structure Tok where
  tok : Token
  start : Nat
  stop : Nat
  deriving Repr

inductive Err | scanner (pos : Nat) | fuel deriving Repr

/-- `eat_while`: longest prefix satisfying `p`, and the rest -/
def spanP (p : Ch → Bool) : Str → Str × Str
  | [] => ([], [])
  | x :: xs => if p x then let (a, b) := spanP p xs; (x :: a, b) else ([], x :: xs)

def digitsVal (ds : Str) : Nat := ds.foldl (fun a d => a * 10 + (d - 48)) 0

/-- A consumer result: consumed characters and remaining suffix. -/
structure Eaten where
  tok : Token
  used : Str
  rest : Str
  deriving Repr

/-- `consume_placeholder`: returns (consumed, rest) or the error position offset (relative to its start). -/
def consumePlaceholder : Nat → Str → List Nat → Nat → Str → Except Nat (Str × Str)
  -- fuel, rest, stack of offsets (after `{`), current offset, consumed-so-far (reversed)
  | 0, _, _, off, _ => .error off
  | _+1, [], stack, _, acc =>
      match stack with
      | [] => .ok (acc.reverse, [])
      | top :: _ => .error top
  | fuel+1, x :: xs, stack, off, acc =>
      if x == 123 then consumePlaceholder fuel xs ((off + 1) :: stack) (off + 1) (x :: acc)
      else if x == 125 then
        match stack with
        | [] => .ok (acc.reverse, x :: xs)
        | _ :: st => consumePlaceholder fuel xs st (off + 1) (x :: acc)
      else consumePlaceholder fuel xs stack (off + 1) (x :: acc)

/-- the tail of `field`: expect `}` -/
def fieldCont (pos : Nat) (index : Option Nat) (name used r2 : Str) : Except Err (Option Eaten) :=
  match r2 with
  | 125 :: r3 => .ok (some ⟨.field name index, used ++ [125], r3⟩)
  | _ => .error (.scanner (pos + used.length))

/-- `field(scanner, ctx)`; `pos` is the absolute position of `rest`'s head. -/
def field (rest : Str) (pos : Nat) (ctx : Ctx) : Except Err (Option Eaten) :=
  if ctx.expr != 0 || ctx.attr != 0 then
    match rest with
    | 36 :: 123 :: r =>
      let (ds, r1) := spanP isNumber r
      if ds != [] then
        match r1 with
        | 58 :: r2 =>
          match consumePlaceholder (r2.length + 1) r2 [] 0 [] with
          | .ok (name, r3) => fieldCont pos (some (digitsVal ds)) name ([36, 123] ++ ds ++ [58] ++ name) r3
          | .error off => .error (.scanner (pos + 2 + ds.length + 1 + off))
        | _ => fieldCont pos (some (digitsVal ds)) [] ([36, 123] ++ ds) r1
      else
        match r1 with
        | x :: _ =>
          if isAlpha x then
            match consumePlaceholder (r1.length + 1) r1 [] 0 [] with
            | .ok (name, r3) => fieldCont pos none name ([36, 123] ++ name) r3
            | .error off => .error (.scanner (pos + 2 + off))
          else fieldCont pos none [] [36, 123] r1
        | [] => fieldCont pos none [] [36, 123] r1
    | _ => .ok none
  else .ok none

def repeaterPlaceholder : Str → Option Eaten
  | 36 :: 35 :: r => some ⟨.repeaterPlaceholder, [36, 35], r⟩
  | _ => none

def repeaterNumber (rest : Str) : Option Eaten :=
  let (ds, r1) := spanP (· == 36) rest
  if ds == [] then none else
  match r1 with
  | 64 :: r2 =>
    let (ups, r3) := spanP (· == 94) r2
    let (rev, minus, r4) := match r3 with | 45 :: r => (true, [45], r) | _ => (false, [], r3)
    let (bs, r5) := spanP isNumber r4
    let base := if bs == [] then 1 else digitsVal bs
    some ⟨.repeaterNumber ds.length rev base ups.length, ds ++ [64] ++ ups ++ minus ++ bs, r5⟩
  | _ => some ⟨.repeaterNumber ds.length false 1 0, ds, r1⟩

def repeater : Str → Option Eaten
  | 42 :: r =>
    let (ds, r1) := spanP isNumber r
    if ds == [] then some ⟨.repeater 1 true, [42], r1⟩
    else some ⟨.repeater (digitsVal ds) false, 42 :: ds, r1⟩
  | _ => none

def whiteSpace (rest : Str) : Option Eaten :=
  let (ws, r) := spanP isSpace rest
  if ws == [] then none else some ⟨.whiteSpace ws, ws, r⟩

/-- the `while` loop of `literal`: returns (value, used, rest, ctx) -/
def literalLoop (exprStart : Int) : Nat → Str → Option Ch → Ctx → Str → Str → Str × Str × Str × Ctx
  -- fuel rest prev ctx value(rev) used(rev)
  | 0, rest, _, ctx, v, u => (v.reverse, u.reverse, rest, ctx)
  | _+1, [], _, ctx, v, u => (v.reverse, u.reverse, [], ctx)
  | fuel+1, ch :: xs, prev, ctx, v, u =>
    if ch == 92 then                     -- escaped()
      match xs with
      | [] => literalLoop exprStart fuel [] (some ch) ctx v (ch :: u)          -- value.append('')
      | y :: ys => literalLoop exprStart fuel ys (some y) ctx (y :: v) (y :: ch :: u)
    else
    -- `/` between digits in class names
    let slash := ch == 47 && ctx.quote.isNone && ctx.expr == 0 && ctx.attr == 0 &&
      (match prev with | some p => isDigitPy p | none => false) &&
      (match xs with | n :: _ => isDigitPy n | [] => false)
    if slash then literalLoop exprStart fuel xs (some ch) ctx (ch :: v) (ch :: u)
    else if ctx.quote == some ch || ch == 36 || isAllowedOperator ch ctx then (v.reverse, u.reverse, ch :: xs, ctx)
    else if exprStart != 0 then
      if ch == 123 then literalLoop exprStart fuel xs (some ch) { ctx with expr := ctx.expr + 1 } (ch :: v) (ch :: u)
      else if ch == 125 then
        if ctx.expr > 1 then                              -- text / expression values start at depth 1 (not `exprStart`: a literal resumed after `$` inside nested braces)
          literalLoop exprStart fuel xs (some ch) { ctx with expr := ctx.expr - 1 } (ch :: v) (ch :: u)
        else (v.reverse, u.reverse, ch :: xs, ctx)
      else literalLoop exprStart fuel xs (some ch) ctx (ch :: v) (ch :: u)
    else if ctx.quote.isNone then
      if ctx.attr == 0 && !isElementName ch then (v.reverse, u.reverse, ch :: xs, ctx)
      else if isAllowedSpace ch ctx || isAllowedRepeater ch ctx || isQuote ch || (bracketType ch).isSome then
        (v.reverse, u.reverse, ch :: xs, ctx)
      else literalLoop exprStart fuel xs (some ch) ctx (ch :: v) (ch :: u)
    else literalLoop exprStart fuel xs (some ch) ctx (ch :: v) (ch :: u)

def literal (rest : Str) (prev : Option Ch) (ctx : Ctx) : Option (Eaten × Ctx) :=
  let (v, u, r, ctx') := literalLoop ctx.expr (rest.length + 1) rest prev ctx [] []
  if u == [] then none else some (⟨.literal v, u, r⟩, ctx')

def operator : Str → Option Eaten
  | ch :: r => match operatorType ch with | some op => some ⟨.operator op, [ch], r⟩ | none => none
  | [] => none
def quote : Str → Option Eaten
  | ch :: r => if isQuote ch then some ⟨.quote (ch == 39), [ch], r⟩ else none
  | [] => none
def bracket : Str → Option Eaten
  | ch :: r => match bracketType ch with | some k => some ⟨.bracket (isOpenBracket ch) k, [ch], r⟩ | none => none
  | [] => none

/-- `repeater(scanner, ctx)`: inside text (`{…}`) or a quoted value `*` is a plain character -/
def repeaterCtx (rest : Str) (ctx : Ctx) : Option Eaten :=
  if ctx.expr != 0 || ctx.quote.isSome then none else repeater rest

/-- one iteration of the main loop: the first consumer that succeeds -/
def step (rest : Str) (pos : Nat) (prev : Option Ch) (ctx : Ctx) : Except Err (Option (Eaten × Ctx)) :=
  match field rest pos ctx with
  | .error e => .error e
  | .ok (some e) => .ok (some (e, ctx))
  | .ok none =>
    match repeaterPlaceholder rest with
    | some e => .ok (some (e, ctx))
    | none =>
    match repeaterNumber rest with
    | some e => .ok (some (e, ctx))
    | none =>
    match repeaterCtx rest ctx with
    | some e => .ok (some (e, ctx))
    | none =>
    match whiteSpace rest with
    | some e => .ok (some (e, ctx))
    | none =>
    match literal rest prev ctx with
    | some r => .ok (some r)
    | none =>
    match operator rest with
    | some e => .ok (some (e, ctx))
    | none =>
    match quote rest with
    | some e => .ok (some (e, ctx))
    | none =>
    match bracket rest with
    | some e => .ok (some (e, ctx))
    | none => .ok none

def updCtx (ctx : Ctx) (ch : Ch) (t : Token) : Ctx :=
  match t with
  | .quote _ => { ctx with quote := if ctx.quote == some ch then none else some ch }
  | .bracket isOpen k => ctx.bump k (if isOpen then 1 else -1)
  | _ => ctx

def loop : Nat → Str → Nat → Option Ch → Ctx → List Tok → Except Err (List Tok)
  | 0, _, _, _, _, _ => .error .fuel
  | _+1, [], _, _, _, acc => .ok acc.reverse
  | fuel+1, ch :: xs, pos, prev, ctx, acc =>
    match step (ch :: xs) pos prev ctx with
    | .error e => .error e
    | .ok none => .error (.scanner pos)
    | .ok (some (e, ctx')) =>
      loop fuel e.rest (pos + e.used.length) e.used.getLast? (updCtx ctx' ch e.tok)
        (⟨e.tok, pos, pos + e.used.length⟩ :: acc)

def tokenize (s : Str) : Except Err (List Tok) := loop (s.length + 1) s 0 none {} []

end T
