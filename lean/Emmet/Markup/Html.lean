import Emmet.Markup.Back
/-! Model of emmet/output_stream.py and emmet/markup/format/{utils,html}.py (comments disabled). -/
namespace T

structure Out where
  buf : Str := []
  level : Int := 0
  field : Nat := 1
  line : Nat := 0

/-- Python `str.splitlines()` -/
def isLineBreak (ch : Ch) : Bool :=
  ch == 10 || ch == 13 || ch == 11 || ch == 12 || ch == 28 || ch == 29 || ch == 30 || ch == 133 || ch == 0x2028 || ch == 0x2029
def splitLines : Str → Str → List Str
  | [], cur => if cur.isEmpty then [] else [cur.reverse]
  | 13 :: 10 :: r, cur => cur.reverse :: splitLines r []
  | x :: r, cur => if isLineBreak x then cur.reverse :: splitLines r [] else splitLines r (x :: cur)

def Out.push (o : Out) (s : Str) : Out := { o with buf := o.buf ++ s }
def repeatStr (s : Str) : Nat → Str | 0 => [] | n+1 => s ++ repeatStr s n
def Out.pushIndent (o : Out) (op : Options) (size : Int) : Out := o.push (repeatStr op.indent size.toNat)
/-- `push_newline(indent)`: `ind` = none (falsy), some none (True → level), some (some k) (explicit int, falsy when 0) -/
def Out.pushNewline (o : Out) (op : Options) (ind : Option (Option Int)) : Out :=
  let o1 := { (o.push (op.newline ++ op.baseIndent)) with line := o.line + 1 }
  match ind with
  | none => o1
  | some none => o1.pushIndent op o1.level
  | some (some k) => if k == 0 then o1 else o1.pushIndent op k
def Out.pushString (o : Out) (op : Options) (s : Str) : Out :=
  match splitLines s [] with
  | [] => o
  | l :: ls => ls.foldl (fun acc ln => (acc.pushNewline op (some none)).push ln) (o.push l)
/-- textmate-style field callback `${i:ph}` / `${i}` -/
def Out.pushField (o : Out) (index : Nat) (ph : Str) : Out :=
  o.push (if ph.isEmpty then [36, 123] ++ natToStr index ++ [125] else [36, 123] ++ natToStr index ++ [58] ++ ph ++ [125])

def tokStep (op : Options) (acc : Out × Int) (t : VTok) : Out × Int :=
  match t with
  | .str s => (acc.1.pushString op s, acc.2)
  | .field name i => (acc.1.pushField (acc.1.field + i) name, if (i : Int) > acc.2 then (i : Int) else acc.2)
def pushTokens (op : Options) (ts : List VTok) (o : Out) : Out :=
  let r := ts.foldl (tokStep op) (o, (-1 : Int))
  if r.2 != -1 then { r.1 with field := r.1.field + (r.2 + 1).toNat } else r.1
def caret : List VTok := [.field [] 0]

def nameTruthy (n : ANode) : Bool := match n.name with | some (_ :: _) => true | _ => false
def attrsTruthy (n : ANode) : Bool := match n.attrs with | some (_ :: _) => true | _ => false
def valueTruthy (n : ANode) : Bool := match n.value with | some (_ :: _) => true | _ => false
def isSnippet (n : ANode) : Bool := !nameTruthy n && !attrsTruthy n
def isInlineNode (op : Options) (n : ANode) : Bool :=
  if nameTruthy n then isInlineName op (n.name.getD []) else (valueTruthy n && !attrsTruthy n)
def hasNewlineTok : VTok → Bool | .str s => s.contains 13 || s.contains 10 | _ => false
def isFieldV : VTok → Bool | .field .. => true | _ => false

def isWordCh (ch : Ch) : Bool := isAlphaNumericWord ch          -- ASCII part of \w
/-- `re_html_tag = <([\w\-:]+)[\s>]` matched at the start -/
def startsWithBlockTag (op : Options) (v : List VTok) : Bool :=
  match v with
  | .str (60 :: r) :: _ =>
    let (nm, r1) := spanP (fun ch => isWordCh ch || ch == 45 || ch == 58) r
    if nm.isEmpty then false
    else match r1 with
      | x :: _ => if pyIsSpace x || x == 62 then !(op.inlineElements.contains (lower nm)) else false
      | [] => false
  | _ => false

def getItem (items : List ANode) (i : Int) : Option ANode := if i < 0 then none else items[i.toNat]?

/-- `should_format(node, index, items, state)`; `parent` = state.parent (NOT updated in the recursive call) -/
def shouldFormat (op : Options) (parent : Option ANode) : Nat → ANode → Nat → List ANode → Bool
  | 0, _, _, _ => true
  | fuel+1, node, index, items =>
    if !op.format then false
    else if index == 0 && parent.isNone then false
    else if (match parent with | some p => isSnippet p && items.length == 1 | none => false) then false
    else
      let snipFmt := isSnippet node &&
        ((match getItem items ((index : Int) - 1) with | some x => isSnippet x | none => false) ||
         (match getItem items ((index : Int) + 1) with | some x => isSnippet x | none => false) ||
         (node.value.getD []).any hasNewlineTok ||
         ((node.value.getD []).any isFieldV && !node.children.isEmpty))
      if snipFmt then true
      else if isInlineNode op node then
        let first := if index == 0 then items.any (fun it => !isInlineNode op it)
                     else (match items[index - 1]? with | some prev => !isInlineNode op prev | none => false)
        if first then true
        else
          let brk := op.inlineBreak != 0 &&
            (let before := ((items.take index).reverse.takeWhile (isInlineNode op)).length
             let after := ((items.drop (index + 1)).takeWhile (isInlineNode op)).length
             1 + before + after ≥ op.inlineBreak)
          if brk then true
          else
            let rec anyChild (f : Nat) (cs : List ANode) (i : Nat) : Bool :=
              match f, cs with
              | 0, _ => false
              | _, [] => false
              | f'+1, c :: rest => shouldFormat op (some node) fuel c i node.children || anyChild f' rest (i + 1)     -- children in the context of their own parent
            anyChild (node.children.length + 1) node.children 0
      else true

def tagName (op : Options) (n : Str) : Str := strCase n op.tagCase
def attrNameCase (op : Options) (n : Str) : Str := strCase n op.attributeCase
def selfCloseStr (op : Options) : Str := match op.selfClosing with | .xhtml => [32, 47] | .xml => [47] | .html => []

def reservedKeywords : List Str := ["for", "while", "of", "async", "await", "const", "let", "var", "continue", "break", "debugger",
  "do", "export", "import", "in", "instanceof", "new", "return", "switch", "this", "throw", "try", "catch", "typeof", "void",
  "with", "yield"].map lit
def isPropKey (s : Str) : Bool :=
  !reservedKeywords.contains s &&
  (match s with
   | x :: xs => (isAlpha x || x == 95 || x == 36) && xs.all (fun ch => isWordCh ch || ch == 36)
   | [] => false)
def getMultiValue (key : Str) (data : List (Str × Str)) (multiple : Bool) : Option Str :=
  let star := if multiple then (match lookup data (key ++ [42]) with | some v => if v.isEmpty then none else some v | none => none) else none
  match star with | some v => some v | none => lookup data key

def shouldOutputAttribute (a : AAttr) : Bool :=
  !a.implied || a.valueType != .raw || (match a.value with | some (_ :: _) => true | _ => false)

/-- the pure part of `push_attribute`: printed name, value tokens, quotes — no stream, no layout option -/
def attrParts (op : Options) (a : AAttr) : Option (Str × Option (List VTok) × Str × Str) :=
  match a.name with
  | some (n0 :: ns) =>
    let an := n0 :: ns
    let isExpr := a.valueType == .expression
    let q : Str := if op.singleQuotes then [39] else [34]
    let lq0 : Str := if isExpr then [123] else q
    let rq0 : Str := if isExpr then [125] else q
    let name1 := if op.markupAttributes.isEmpty then an else
      (match getMultiValue an op.markupAttributes a.multiple with | some v => if v.isEmpty then an else v | none => an)
    let name := attrNameCase op name1
    let prefix? := if op.valuePrefix.isEmpty then none else getMultiValue an op.valuePrefix a.multiple
    let (value, lq, rq) : Option (List VTok) × Str × Str :=
      match prefix?, a.value with
      | some pf, some [.str val] =>
        if pf.isEmpty then (a.value, lq0, rq0) else
        let v := if isPropKey val then pf ++ [46] ++ val else pf ++ [91, 39] ++ val ++ [39, 93]
        (some [.str v], if op.jsx then [123] else lq0, if op.jsx then [125] else rq0)
      | _, _ => (a.value, lq0, rq0)
    let valFalsy := match value with | some (_ :: _) => false | _ => true
    let isBool := a.boolean || op.booleanAttributes.contains (lower an)
    let value2 : Option (List VTok) :=
      if isBool && valFalsy then (if !op.compactBoolean then some [.str name] else value)
      else if valFalsy then some caret else value
    some (name, value2, lq, rq)
  | _ => none

def pushAttribute (op : Options) (a : AAttr) (o : Out) : Out :=
  match attrParts op a with
  | some (name, value2, lq, rq) =>
    let o1 := o.pushString op ([32] ++ name)
    match value2 with
    | some (x :: xs) => ((pushTokens op (x :: xs) (o1.pushString op ([61] ++ lq))).pushString op rq)
    | _ => if op.selfClosing != .html then o1.pushString op ([61] ++ lq ++ rq) else o1
  | none => o

def lstripStr (s : Str) : Str := lstrip s

mutual
/-- `element(node, index, items, state, next)` -/
def htmlElement (op : Options) : Nat → ANode → Nat → List ANode → Option ANode → Out → Out
  | 0, _, _, _, _, o => o
  | fuel+1, node, index, items, parent, o =>
    let fmt := shouldFormat op parent 10000 node index items
    let level : Int := match parent with
      | none => 0
      | some p => if isSnippet p || (nameTruthy p && op.formatSkip.contains (p.name.getD [])) then 0 else 1
    let o0 := { o with level := o.level + level }
    let o1 := if fmt then o0.pushNewline op (some none) else o0
    let o2 :=
      if nameTruthy node then
        let name := tagName op (node.name.getD [])
        let oa := o1.pushString op ([60] ++ name)
        let ob := (node.attrs.getD []).foldl (fun acc a => if shouldOutputAttribute a then pushAttribute op a acc else acc) oa
        if node.selfClosing && node.children.isEmpty && !valueTruthy node then ob.pushString op (selfCloseStr op ++ [62])
        else
          let oc := ob.pushString op [62]
          let od := match pushSnippet op fuel node oc with
            | some x => x
            | none =>
              let ov :=
                if valueTruthy node then
                  let v := node.value.getD []
                  let inner := v.any hasNewlineTok || startsWithBlockTag op v
                  let x1 := if inner then (let t := { oc with level := oc.level + 1 }; t.pushNewline op (some (some t.level))) else oc
                  let x2 := pushTokens op v x1
                  if inner then (let t := { x2 with level := x2.level - 1 }; t.pushNewline op (some (some t.level))) else x2
                else oc
              let ok := htmlChildren op fuel node.children 0 node ov
              if !valueTruthy node && node.children.isEmpty then
                let inner := op.formatLeafNode || op.formatForce.contains (node.name.getD [])
                let x1 := if inner then (let t := { ok with level := ok.level + 1 }; t.pushNewline op (some (some t.level))) else ok
                let x2 := pushTokens op caret x1
                if inner then (let t := { x2 with level := x2.level - 1 }; t.pushNewline op (some (some t.level))) else x2
              else ok
          od.pushString op ([60, 47] ++ name ++ [62])
      else
        match pushSnippet op fuel node o1 with
        | some x => x
        | none =>
          if valueTruthy node then htmlChildren op fuel node.children 0 node (pushTokens op (node.value.getD []) o1) else o1
    let o3 := if fmt && index + 1 == items.length && parent.isSome then
        let offset : Int := match parent with | some p => if isSnippet p then 0 else 1 | none => 1
        o2.pushNewline op (some (some (o2.level - offset)))
      else o2
    { o3 with level := o3.level - level }

def htmlChildren (op : Options) : Nat → List ANode → Nat → ANode → Out → Out
  | 0, _, _, _, o => o
  | _+1, [], _, _, o => o
  | fuel+1, c :: rest, i, parent, o =>
    -- items = parent.children (full list) is needed by should_format: recover it from the parent
    let o1 := htmlElement op fuel c i parent.children (some parent) o
    htmlChildren op fuel rest (i + 1) parent o1

/-- `push_snippet` -/
def pushSnippet (op : Options) : Nat → ANode → Out → Option Out
  | 0, _, _ => none
  | fuel+1, node, o =>
    if valueTruthy node && !node.children.isEmpty then
      let v := node.value.getD []
      match v.findIdx? isFieldV with
      | some ix =>
        let o1 := pushTokens op (v.take ix) o
        let line := o1.line
        let o2 := htmlChildren op fuel node.children 0 node o1
        let (o3, pos) := match v[ix + 1]? with
          | some (.str s) => if o2.line != line then (o2.pushString op (lstripStr s), ix + 2) else (o2, ix + 1)
          | _ => (o2, ix + 1)
        some (pushTokens op (v.drop pos) o3)
      | none => none
    else none
end

def htmlFormat (op : Options) (nodes : List ANode) : Str :=
  let rec go (fuel : Nat) (rest : List ANode) (i : Nat) (o : Out) : Out :=
    match fuel, rest with
    | 0, _ => o
    | _, [] => o
    | f+1, n :: ns => go f ns (i + 1) (htmlElement op 100000 n i nodes none o)
  (go (nodes.length + 1) nodes 0 {}).buf

def expandMarkup (abbr : Str) (op : Options) : PM Str := do
  let nodes ← markupParse abbr op
  return htmlFormat op nodes

end T
