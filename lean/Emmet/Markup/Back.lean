import Emmet.Abbr.Convert
import Emmet.Generated.Markup
/-! Model of emmet/markup (__init__, snippets, attributes, implicit_tag, addon/label, addon/xsl),
    emmet/output_stream.py and emmet/markup/format/{walk,utils,html}.py. Alias-free. -/
namespace T

inductive SelfClose | html | xhtml | xml deriving DecidableEq, Repr

structure Options where
  syn : Str := "html".toList.map Char.toNat
  inlineElements : List Str := Gen.inlineElements
  indent : Str := [9]
  baseIndent : Str := []
  newline : Str := [10]
  tagCase : Str := []
  attributeCase : Str := []
  singleQuotes : Bool := false
  format : Bool := true
  formatLeafNode : Bool := false
  formatSkip : List Str := Gen.formatSkip
  formatForce : List Str := Gen.formatForce
  inlineBreak : Nat := 3
  compactBoolean : Bool := false
  booleanAttributes : List Str := Gen.booleanAttributes
  reverseAttributes : Bool := false
  selfClosing : SelfClose := .html
  jsx : Bool := false
  markupAttributes : List (Str × Str) := []
  valuePrefix : List (Str × Str) := []
  snippets : List (Str × Str) := Gen.markupSnippets
  variables : List (Str × Str) := Gen.variables
  text : TextArg := .none
  maxRepeat : Option Int := none          -- maxRepeat or max_repeat, for the top-level parse
  maxRepeatSnake : Option Int := none     -- `max_repeat` key only: what snippet parsing sees
  contextName : Option Str := none
  isMarkupType : Bool := true

def lit (s : String) : Str := s.toList.map Char.toNat
def lowerCh (ch : Ch) : Ch := if 65 ≤ ch && ch ≤ 90 then ch + 32 else ch
def upperCh (ch : Ch) : Ch := if 97 ≤ ch && ch ≤ 122 then ch - 32 else ch
def lower (s : Str) : Str := s.map lowerCh
def strCase (s : Str) (c : Str) : Str := if c.isEmpty then s else if c == lit "upper" then s.map upperCh else lower s
def lookup (tbl : List (Str × Str)) (k : Str) : Option Str := (tbl.find? (·.1 == k)).map (·.2)

/-! ### abbreviation.parse as used by the markup layer -/
def parseAbbr (abbr : Str) (jsx : Bool) (p : ConvParams) : PM (List ANode) :=
  match tokenize abbr with
  | .error (.scanner pos) => .error (.scanner pos)
  | .error .fuel => .error .fuel
  | .ok toks => do
    let roots ← parseTokens jsx toks
    convert roots p (convFuel toks p)

/-! ### snippets.py -/
def ANode.name : ANode → Option Str | .mk n _ _ _ _ _ => n
def ANode.attrs : ANode → Option (List AAttr) | .mk _ _ a _ _ _ => a
def ANode.value : ANode → Option (List VTok) | .mk _ v _ _ _ _ => v
def ANode.selfClosing : ANode → Bool | .mk _ _ _ _ _ s => s
def ANode.withChildren : ANode → List ANode → ANode | .mk n v a _ r s, c => .mk n v a c r s

mutual
/-- append `extra` to the children of the deepest last node below (and including) this node (`find_deepest` + `children +=`) -/
def graftNode (extra : List ANode) : ANode → ANode
  | .mk n v a c r s => if c.isEmpty then .mk n v a (c ++ extra) r s else .mk n v a (graftList extra c) r s
/-- … of a forest: the deepest last node of its last tree; a resolved abbreviation without nodes drops the children -/
def graftList (extra : List ANode) : List ANode → List ANode
  | [] => []
  | [x] => [graftNode extra x]
  | x :: y :: rest => x :: graftList extra (y :: rest)
end
def appendDeepest (f extra : List ANode) : List ANode := graftList extra f

def mergeInto (child : ANode) (reversed : Bool) : ANode → ANode
  | .mk n v a c r s =>
    let a' := match child.attrs with
      | some (x :: xs) => let to := x :: xs; let frm := a.getD []; some (if reversed then to ++ frm else frm ++ to)
      | _ => a
    .mk n (match child.value with | some cv => some cv | none => v) a' c
        (match child.rep with | some cr => some cr | none => r) (s || child.selfClosing)

mutual
/-- `walk_resolve` for one child, with the `resolve` closure as a parameter: structural on the tree -/
def walkNode (r : ANode → List Str → PM (Option (List ANode))) : ANode → List Str → PM (List ANode)
  | .mk n v a c rep s, stack =>
    match r (.mk n v a c rep s) stack with
    | .error e => .error e
    | .ok (some resolved) =>
      match walkList r c stack with
      | .error e => .error e
      | .ok kids => .ok (appendDeepest resolved kids)
    | .ok none =>
      match walkList r c stack with
      | .error e => .error e
      | .ok kids => .ok [.mk n v a kids rep s]
/-- `walk_resolve(node, resolve, config)` on a forest -/
def walkList (r : ANode → List Str → PM (Option (List ANode))) : List ANode → List Str → PM (List ANode)
  | [], _ => .ok []
  | child :: rest, stack =>
    match walkNode r child stack with
    | .error e => .error e
    | .ok head =>
      match walkList r rest stack with
      | .error e => .error e
      | .ok tail => .ok (head ++ tail)
end

/-- the `resolve` closure. The counter bounds the NESTING of snippets only (a snippet whose text is already being resolved is
    left alone, so nesting never exceeds the number of snippets: theorem `T.resolve_terminates`) -/
def resolveN (o : Options) : Nat → ANode → List Str → PM (Option (List ANode))
  | 0, _, _ => .error .fuel
  | n+1, child, stack =>
    match child.name with
    | none => .ok none
    | some nm =>
      match lookup o.snippets nm with
      | none => .ok none
      | some snippet =>
        if snippet.isEmpty || stack.contains snippet then .ok none
        else
          -- parse(snippet, config): jsx comes from config.get('jsx') = None, text was set to None
          match parseAbbr snippet false { text := .none, variables := some o.variables, maxRepeat := o.maxRepeatSnake } with
          | .error e => .error e
          | .ok parsed =>
            match walkList (resolveN o n) parsed (stack ++ [snippet]) with
            | .error e => .error e
            | .ok inner => .ok (some (inner.map (mergeInto child o.reverseAttributes)))

/-- `resolve_snippets(abbr, config)` -/
def resolveSnippets (o : Options) (nodes : List ANode) : PM (List ANode) :=
  walkList (resolveN o (o.snippets.length + 1)) nodes []

/-! ### transforms -/
def isInlineName (o : Options) (n : Str) : Bool := o.inlineElements.contains (lower n)

def implicitTag (o : Options) (parentName : Option Str) (hasParent : Bool) (n : ANode) : ANode :=
  match n with
  | .mk name v a c r s =>
    let nameFalsy := match name with | none => true | some x => x.isEmpty
    let attrsTruthy := match a with | some (_ :: _) => true | _ => false
    if nameFalsy && attrsTruthy then
      let ctxName := if hasParent then (parentName.getD []) else (o.contextName.getD [])
      let pn := lower ctxName
      let nm := match lookup Gen.elementMap pn with
        | some x => x
        | none => if isInlineName o pn then lit "span" else lit "div"
      .mk (some nm) v a c r s
    else n

/-- `merge_value(prev, next, ' ')` -/
def appendTok (ts : List VTok) (v : VTok) : List VTok :=
  match ts.getLast?, v with
  | some (.str a), .str b => ts.dropLast ++ [.str (a ++ b)]
  | _, _ => ts ++ [v]
def mergeValue (prev next : Option (List VTok)) : Option (List VTok) :=
  match prev, next with
  | some p, some n =>
    let p1 := if !p.isEmpty && !n.isEmpty then appendTok p (.str [32]) else p      -- `if prev_value and next_value and glue`
    some (n.foldl appendTok p1)
  | some p, none => if p.isEmpty then none else some p        -- `prev or next` then copy; [] or None → None
  | none, n => match n with | some (x :: xs) => some (x :: xs) | some [] => some [] | none => none
-- NB: Python: `result = prev_value or next_value; return result and result[:]`:
--   prev=[] , next=None → result=None → None;  prev=None,next=[] → [] and [][:] → []

def mergeAttributes (o : Options) (attrs : List AAttr) : List AAttr :=
  let rec go : List AAttr → List AAttr → List AAttr     -- remaining, result (in order)
    | [], res => res
    | a :: rest, res =>
      match a.name with
      | some nm =>
        if nm.isEmpty then go rest (res ++ [a])          -- `if attr.name:` falsy for ''
        else
          match res.findIdx? (fun r => r.name == some nm) with
          | some i =>
            let prev := res.getD i a
            let merged : AAttr :=
              if nm == lit "class" then { prev with value := mergeValue prev.value a.value }
              else
                { prev with
                  value := if o.reverseAttributes then prev.value else a.value
                  implied := prev.implied || a.implied
                  boolean := prev.boolean || a.boolean
                  valueType := if prev.valueType == .expression then prev.valueType else a.valueType }
            go rest (res.set i merged)
          | none => go rest (res ++ [a])
      | none => go rest (res ++ [a])
  go attrs []
-- NB: the lookup dict is keyed by name, and name-less attributes are appended without entering the lookup;
--     findIdx? over `res` could hit a name-less... no: name-less attrs have name none ≠ some nm.  Attributes with
--     name '' are appended raw and never looked up (Python `if attr.name`).

def isEmptyAttribute (a : AAttr) : Bool :=
  match a.value with
  | none => true
  | some [] => true
  | some [.field name _] => name.isEmpty
  | _ => false

def isLabelTarget (n : ANode) : Bool := n.name == some (lit "input") || n.name == some (lit "textarea")
/-- remove the empty `id` attribute from the first input/textarea in pre-order; returns (forest, found) -/
def fixFirstInput : Nat → List ANode → List ANode × Bool
  | 0, f => (f, false)
  | _+1, [] => ([], false)
  | fuel+1, (.mk n v a c r s) :: rest =>
    if isLabelTarget (.mk n v a c r s) then
      let a' := match a with
        | some (x :: xs) => some ((x :: xs).filter fun att => !(att.name == some (lit "id") && isEmptyAttribute att))
        | other => other
      (.mk n v a' c r s :: rest, true)
    else
      let (c', found) := fixFirstInput fuel c
      if found then (.mk n v a c' r s :: rest, true)
      else
        let (rest', found') := fixFirstInput fuel rest
        (.mk n v a c r s :: rest', found')

def labelTransform (n : ANode) : ANode :=
  match n with
  | .mk name v a c r s =>
    if name == some (lit "label") then
      let (c', found) := fixFirstInput 10000 c
      if found then
        let a' := match a with
          | some (x :: xs) => some ((x :: xs).filter fun att => !(att.name == some (lit "for") && isEmptyAttribute att))
          | other => other
        .mk name v a' c' r s
      else n
    else n

def xslTransform (n : ANode) : ANode :=
  match n with
  | .mk name v a c r s =>
    let nameOk := name == some (lit "xsl:variable") || name == some (lit "xsl:with-param")
    let attrsTruthy := match a with | some (_ :: _) => true | _ => false
    let valTruthy := match v with | some (_ :: _) => true | _ => false
    if nameOk && attrsTruthy && (!c.isEmpty || valTruthy) then
      .mk name v (a.map (·.filter fun att => att.name != some (lit "select"))) c r s
    else n

/-- `walk(abbr, transform, config)`: pre-order -/
def transformForest (o : Options) : Nat → List ANode → Option Str → Bool → List ANode
  | 0, f, _, _ => f
  | fuel+1, f, parentName, hasParent =>
    f.map fun n =>
      let n1 := implicitTag o parentName hasParent n
      let n2 := match n1 with
        | .mk name v (some (x :: xs)) c r s => .mk name v (some (mergeAttributes o (x :: xs))) c r s
        | other => other
      let n3 := if o.syn == lit "xsl" then xslTransform n2 else n2
      let n4 := if o.isMarkupType then labelTransform n3 else n3
      match n4 with
      | .mk name v a c r s => .mk name v a (transformForest o fuel c name true) r s

/-- `markup.parse(abbr, config)` -/
def markupParse (abbr : Str) (o : Options) : PM (List ANode) := do
  let nodes ← parseAbbr abbr o.jsx { text := o.text, variables := some o.variables, maxRepeat := o.maxRepeat }
  let resolved ← resolveSnippets o nodes
  return transformForest o 100000 resolved none false

end T
