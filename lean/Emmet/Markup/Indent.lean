import Emmet.Markup.Html
/-! Model of emmet/markup/format/indent_format.py and the haml/pug/slim wrappers. -/
namespace T

structure IndentOpts where
  beforeName : Str := []
  afterName : Str := []
  beforeAttribute : Str := []
  afterAttribute : Str := []
  glueAttribute : Str := []
  beforeTextLine : Str := []
  afterTextLine : Str := []
  booleanValue : Str := []
  selfClose : Str := []

def hamlOpts : IndentOpts :=
  { beforeName := [37], beforeAttribute := [40], afterAttribute := [41], glueAttribute := [32],
    afterTextLine := [32, 124], booleanValue := lit "true", selfClose := [47] }
def pugOpts (op : Options) : IndentOpts :=
  { beforeAttribute := [40], afterAttribute := [41], glueAttribute := [44, 32],
    beforeTextLine := [124, 32], selfClose := if op.selfClosing == .xml then [47] else [] }
def slimOpts : IndentOpts := { beforeAttribute := [32], glueAttribute := [32], beforeTextLine := [124, 32], selfClose := [47] }

/-- `split_by_lines(tokens)` -/
def splitByLines (ts : List VTok) : List (List VTok) :=
  let (res, line) := ts.foldl (fun (acc : List (List VTok) × List VTok) t =>
    match t with
    | .str s =>
      match splitLines s [] with
      | [] => (acc.1, acc.2 ++ [.str []])
      | l :: ls =>
        let first := acc.2 ++ [.str l]
        ls.foldl (fun (a : List (List VTok) × List VTok) ln => (a.1 ++ [a.2], [.str ln])) (acc.1, first)
    | f => (acc.1, acc.2 ++ [f])) ([], [])
  if line.isEmpty then res else res ++ [line]

def valueLength (ts : List VTok) : Nat := ts.foldl (fun n t => n + (match t with | .str s => s.length | .field nm _ => nm.length)) 0

/-- `re.sub(r'\s+', '.', t)` -/
def wsToDots : Str → Str
  | [] => []
  | x :: xs => if pyIsSpace x then 46 :: wsToDots (lstrip xs) else x :: wsToDots xs
termination_by s => s.length
decreasing_by
  all_goals simp_wf
  · have : (lstrip xs).length ≤ xs.length := by
      induction xs with
      | nil => simp [lstrip]
      | cons y ys ih => simp only [lstrip]; split <;> simp_all <;> omega
    omega

def isPrimary (a : AAttr) : Bool := a.name == some (lit "class") || a.name == some (lit "id")

def pushPrimary (op : Options) (attrs : List AAttr) (o : Out) : Out :=
  attrs.foldl (fun acc a =>
    match a.value with
    | some v =>
      if a.name == some (lit "class") then
        pushTokens op (v.map fun t => match t with | .str s => .str (wsToDots s) | f => f) (acc.pushString op [46])
      else pushTokens op v (acc.pushString op [35])
    | none => acc) o

def secStep (op : Options) (io : IndentOpts) (n : Nat) (acc : Out × Nat) (a : AAttr) : Out × Nat :=
  let (oc, i) := acc
  let nm := a.name.getD []
  let oa := oc.pushString op (attrNameCase op nm)
  let valFalsy := match a.value with | some (_ :: _) => false | _ => true
  let isBool := a.boolean || op.booleanAttributes.contains (lower nm)
  let ob :=
    if isBool && valFalsy then
      (if !op.compactBoolean && !io.booleanValue.isEmpty then oa.pushString op ([61] ++ io.booleanValue) else oa)
    else
      let isExpr := a.valueType == .expression
      let q : Str := if op.singleQuotes then [39] else [34]
      let od := oa.pushString op ([61] ++ (if isExpr then [123] else q))
      let oe := pushTokens op (if valFalsy then caret else a.value.getD []) od
      oe.pushString op (if isExpr then [125] else q)
  let og := if i + 1 != n && !io.glueAttribute.isEmpty then ob.pushString op io.glueAttribute else ob
  (og, i + 1)

def pushSecondary (op : Options) (io : IndentOpts) (attrs : List AAttr) (o : Out) : Out :=
  if attrs.isEmpty then o else
  let o1 := if io.beforeAttribute.isEmpty then o else o.pushString op io.beforeAttribute
  let o2 := (attrs.foldl (secStep op io attrs.length) (o1, 0)).1
  if io.afterAttribute.isEmpty then o2 else o2.pushString op io.afterAttribute

/-- one line of multi-line text: its fields are numbered from the value's base `field`; the accumulator carries the largest
    next-free number seen so far -/
def textLineStep (op : Options) (io : IndentOpts) (mx : Nat) (field : Nat) (acc : Out × Nat) (x : List VTok × Nat) : Out × Nat :=
  let a1 := acc.1.pushNewline op (some none)
  let a2 := if io.beforeTextLine.isEmpty then a1 else a1.push io.beforeTextLine
  let a3 := pushTokens op x.1 { a2 with field := field }
  let nf := max acc.2 a3.field
  (if io.afterTextLine.isEmpty then a3 else (a3.push (List.replicate (mx - x.2) 32)).push io.afterTextLine, nf)

def pushValue (op : Options) (io : IndentOpts) (node : ANode) (o : Out) : Out :=
  if !valueTruthy node && !node.children.isEmpty then o else
  let value := if valueTruthy node then node.value.getD [] else caret
  let lines := splitByLines value
  if lines.length == 1 then
    let o1 := if nameTruthy node || attrsTruthy node then o.push [32] else o
    pushTokens op value o1
  else
    let lens := lines.map valueLength
    let mx := lens.foldl max 0
    let o1 := { o with level := o.level + 1 }
    let r := (lines.zip lens).foldl (textLineStep op io mx o.field) (o1, o.field)
    { r.1 with level := r.1.level - 1, field := r.2 }

mutual
def indentElement (op : Options) (io : IndentOpts) : Nat → ANode → Nat → Bool → Out → Out
  | 0, _, _, _, o => o
  | fuel+1, node, index, hasParent, o =>
    let attrs := node.attrs.getD []
    let primary := attrs.filter isPrimary
    let secondary := attrs.filter (fun a => !isPrimary a)
    let level : Int := if hasParent then 1 else 0
    let o0 := { o with level := o.level + level }
    let fmt := !(!hasParent && index == 0) && !isSnippet node
    let o1 := if fmt then o0.pushNewline op (some none) else o0
    let o2 := if nameTruthy node && (node.name != some (lit "div") || primary.isEmpty) then
        o1.pushString op (io.beforeName ++ node.name.getD [] ++ io.afterName) else o1
    let o3 := pushPrimary op primary o2
    let o4 := pushSecondary op io (secondary.filter shouldOutputAttribute) o3
    let o5 :=
      if node.selfClosing && !valueTruthy node && node.children.isEmpty then
        (if io.selfClose.isEmpty then o4 else o4.pushString op io.selfClose)
      else indentChildren op io fuel node.children 0 (pushValue op io node o4)
    { o5 with level := o5.level - level }
def indentChildren (op : Options) (io : IndentOpts) : Nat → List ANode → Nat → Out → Out
  | 0, _, _, o => o
  | _+1, [], _, o => o
  | fuel+1, c :: rest, i, o => indentChildren op io fuel rest (i + 1) (indentElement op io fuel c i true o)
end

def indentFormat (op : Options) (io : IndentOpts) (nodes : List ANode) : Str :=
  let rec go (fuel : Nat) (rest : List ANode) (i : Nat) (o : Out) : Out :=
    match fuel, rest with
    | 0, _ => o
    | _, [] => o
    | f+1, n :: ns => go f ns (i + 1) (indentElement op io 100000 n i false o)
  (go (nodes.length + 1) nodes 0 {}).buf

def expandAny (abbr : Str) (op : Options) : PM Str := do
  let nodes ← markupParse abbr op
  if op.syn == lit "haml" then return indentFormat op hamlOpts nodes
  else if op.syn == lit "pug" then return indentFormat op (pugOpts op) nodes
  else if op.syn == lit "slim" then return indentFormat op slimOpts nodes
  else return htmlFormat op nodes

end T
