import Emmet.ConfigModel
/-! Model of what survives a call to `expand`: nothing but the entries a call stores in a caller-supplied `cache`
    dictionary (`config.cache['stylesheet_snippets']`, the converted stylesheet snippet table). Everything else the
    implementation touches is either restored (`config.user_config['text']`) or local to the call; this record IS the claim. -/
namespace W
open Cfg
open T (Str)

structure Call where
  abbr : Str
  cfg : RawConfig
  glob : GlobalConfig := []
  cache : Option Nat := none          -- which caller-owned cache dictionary is passed, if any

/-- the caches: dictionary id ↦ stored converted snippet table (absent = the dictionary has no entry yet) -/
abbrev World := List (Nat × Array CA.Snippet)
def lookup (w : World) (id : Nat) : Option (Array CA.Snippet) := (w.find? (·.1 == id)).map (·.2)

def useSnippets (c : Call) (sn : Array CA.Snippet) : Outcome :=
  ofCss (CA.expandStylesheetPre c.abbr sn (stylesheetOptions c.cfg c.glob))

/-- one call: new world, outcome -/
def step (w : World) (c : Call) : World × Outcome :=
  if typeOf c.cfg == T.lit "stylesheet" then
    match c.cache with
    | none =>
      match CA.convertSnippets (mergedSnippets c.cfg c.glob) with
      | .ok sn => (w, useSnippets c sn)
      | .error e => (w, ofCss (.error e))
    | some id =>
      match lookup w id with
      | some sn => (w, useSnippets c sn)                       -- cache hit: the stored table is used as is
      | none =>
        match CA.convertSnippets (mergedSnippets c.cfg c.glob) with
        | .ok sn => ((id, sn) :: w, useSnippets c sn)         -- miss: convert, store, use
        | .error e => (w, ofCss (.error e))
  else (w, expand c.abbr c.cfg c.glob)                        -- markup: no state at all

def run (h : List Call) (w : World) : World := h.foldl (fun w c => (step w c).1) w

end W
