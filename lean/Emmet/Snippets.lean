import Emmet.Generated.Markup
import Emmet.Generated.Css
/-! Model of `parse_snippets` (emmet/snippets/__init__.py): the entries as written in the snippet files (`a|b: definition`) read as a
one-name-per-entry table. `flatten` is the plain reading: every name of every entry, in order, nothing overridden. -/
namespace Snip
/-- split at `|` -/
def splitBar : List Nat → List Nat → List (List Nat)
  | [], cur => [cur.reverse]
  | c :: cs, cur => if c = 124 then cur.reverse :: splitBar cs [] else splitBar cs (c :: cur)
def flatten (written : List (List Nat × List Nat)) : List (List Nat × List Nat) :=
  written.flatMap fun kv => (splitBar kv.1 []).map fun n => (n, kv.2)
def distinct : List (List Nat) → Bool
  | [] => true
  | x :: xs => !xs.contains x && distinct xs
end Snip
