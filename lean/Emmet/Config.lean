/-! C20 (prototype): Python dict `update` layering, model and the generic lookup theorem. -/
namespace Cfg

abbrev Dict (κ ν : Type) := List (κ × ν)

variable {κ ν : Type} [DecidableEq κ]

def get? : Dict κ ν → κ → Option ν
  | [], _ => none
  | (a, b) :: d, k => if a = k then some b else get? d k

/-- `d[k] = v`: keeps the position of an existing key, appends a new one -/
def set : Dict κ ν → κ → ν → Dict κ ν
  | [], k, v => [(k, v)]
  | (a, b) :: d, k, v => if a = k then (k, v) :: d else (a, b) :: set d k v

/-- `d.update(e)` -/
def update (d e : Dict κ ν) : Dict κ ν := e.foldl (fun acc kv => set acc kv.1 kv.2) d

/-- `merged_data`: start from `{}` and update with every layer that is present -/
def layerStep (acc : Dict κ ν) (l : Option (Dict κ ν)) : Dict κ ν :=
  match l with | some e => update acc e | none => acc

def mergeLayers (layers : List (Option (Dict κ ν))) : Dict κ ν :=
  layers.foldl layerStep []


/-- option values of the translated fragment: bool, int, str, list of str, dict str→str -/
inductive OptVal
  | b (v : Bool)
  | n (v : Int)
  | s (v : List Nat)
  | l (v : List (List Nat))
  | d (v : List (List Nat × List Nat))
  deriving Repr, BEq, DecidableEq

end Cfg
