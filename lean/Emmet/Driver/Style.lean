import Emmet.Css.Style
namespace Drv.Style
open CA
def hexVal (ch : Char) : Nat :=
  if ch.isDigit then ch.toNat - '0'.toNat else if 'a' ≤ ch ∧ ch ≤ 'f' then ch.toNat - 'a'.toNat + 10 else 0
def decode (s : String) : List Nat :=
  if s.isEmpty || s == "_" then [] else (s.splitOn ",").map fun h => h.foldl (fun a ch => a * 16 + hexVal ch) 0
def hex (s : List Nat) : String := if s.isEmpty then "_" else ",".intercalate (s.map fun n => String.ofList (Nat.toDigits 16 n))
def cfgs : List SOpts := [
  {},
  { intUnit := lit "pt", floatUnit := lit "rem", shortHex := false },
  { between := [32], after := [] },
  { after := [] },
  { skipUnmatched := false, format := false } ]
def showE : Err → String
  | .scanner p => s!"scanner {p}" | .token (some p) => s!"token {p}" | .token none => "token None" | .internal t => s!"internal {t}" | .fuel => "FUEL"
partial def go (h o : IO.FS.Stream) : IO Unit := do
  let line ← h.getLine
  if line.isEmpty then return ()
  match line.trimAsciiEnd.toString.splitOn ";" with
  | [a, c] =>
    let show1 (tf : Bool) : String := match expandStylesheet (decode a) Gen.cssSnippets { cfgs.getD c.toNat! {} with tieFirst := tf } with | .ok s => "ok " ++ hex s | .error e => showE e
    let r1 := show1 false; let r2 := show1 true
    o.putStrLn (if r1 == r2 then r1 else r1 ++ " ~~ " ++ r2)
  | _ => o.putStrLn "BADLINE"
  go h o
def main : IO Unit := do go (← IO.getStdin) (← IO.getStdout)
end Drv.Style
