import Emmet.Stream
import Emmet.Markup.Html
/-! `stream` mode: random operation programs on the model of OutputStream (Emmet/Stream.lean), same programs run on the real class. -/
namespace Drv.Stream
open St
def hexVal (ch : Char) : Nat :=
  if ch.isDigit then ch.toNat - '0'.toNat else if 'a' ≤ ch ∧ ch ≤ 'f' then ch.toNat - 'a'.toNat + 10 else 0
def decode (s : String) : List Nat :=
  if s.isEmpty then [] else (s.splitOn ",").map fun h => h.foldl (fun a ch => a * 16 + hexVal ch) 0
def hexNat (n : Nat) : String := String.ofList (Nat.toDigits 16 n)
def enc (s : List Nat) : String := ",".intercalate (s.map hexNat)
def toInt (s : String) : Int := if s.startsWith "-" then -((s.drop 1).toString.toNat!) else s.toNat!
def natStr (n : Nat) : List Nat := (toString n).toList.map Char.toNat

/-- the text callbacks the harness knows by number: identity, `&` → `&amp;`, ASCII upper case, `[`text`]` -/
def cbText (k : Nat) (t : St.Str) (_ _ _ : Nat) : St.Str :=
  match k with
  | 1 => t.flatMap fun c => if c == 38 then [38, 97, 109, 112, 59] else [c]
  | 2 => t.map fun c => if 97 ≤ c && c ≤ 122 then c - 32 else c
  | 3 => [91] ++ t ++ [93]
  | _ => t
/-- field callbacks: `${i}` / `${i:ph}`, the placeholder only, nothing -/
def cbField (k : Nat) (i : Nat) (ph : St.Str) (_ _ _ : Nat) : St.Str :=
  match k with
  | 1 => ph
  | 2 => []
  | _ => if ph.isEmpty then [36, 123] ++ natStr i ++ [125] else [36, 123] ++ natStr i ++ [58] ++ ph ++ [125]

def runOp (o : Opts) (s : S) (op : String) : S :=
  match op.splitOn ":" with
  | ["p", t] => s.push o (decode t)
  | ["s", t] => s.pushString o (T.splitLines (decode t) [])
  | ["n", "-"] => s.pushNewline o none
  | ["n", "t"] => s.pushNewline o (some none)
  | ["n", k] => s.pushNewline o (some (some (toInt k)))
  | ["i", "-"] => s.pushIndent o s.level
  | ["i", k] => s.pushIndent o (toInt k)
  | ["f", i, ph] => s.pushField o i.toNat! (decode ph)
  | ["l", d] => { s with level := s.level + toInt d }
  | _ => s

partial def go (h out : IO.FS.Stream) : IO Unit := do
  let line ← h.getLine
  if line.isEmpty then return ()
  match line.trimAsciiEnd.toString.splitOn ";" with
  | [nl, bi, ind, ct, cf, ops] =>
    let o : Opts := { newline := decode nl, baseIndent := decode bi, indent := decode ind, cbText := cbText ct.toNat!, cbField := cbField cf.toNat! }
    let s := (if ops.isEmpty then [] else ops.splitOn "|").foldl (runOp o) {}
    let log := s.log.reverse.map fun c => s!"{c.offset}:{c.line}:{c.column}:{enc c.piece}"
    out.putStrLn s!"{enc s.value} | {s.offset}:{s.line}:{s.column} | {" ".intercalate log}"
  | _ => out.putStrLn "bad-request"
  go h out
def main : IO Unit := do go (← IO.getStdin) (← IO.getStdout)
end Drv.Stream
