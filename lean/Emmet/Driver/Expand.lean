import Emmet.Markup.Indent
namespace Drv.Expand
open T
def hexVal (ch : Char) : Nat :=
  if ch.isDigit then ch.toNat - '0'.toNat else if 'a' ≤ ch ∧ ch ≤ 'f' then ch.toNat - 'a'.toNat + 10 else 0
def decode (s : String) : List Nat :=
  if s.isEmpty || s == "_" then [] else (s.splitOn ",").map fun h => h.foldl (fun a ch => a * 16 + hexVal ch) 0
def hex (s : List Nat) : String := if s.isEmpty then "_" else ",".intercalate (s.map fun n => String.ofList (Nat.toDigits 16 n))
def mergeTbl (a b : List (Str × Str)) : List (Str × Str) := (a.filter fun kv => !(b.any (·.1 == kv.1))) ++ b
def cfgs : List Options := [
  {},
  { format := false },
  { selfClosing := .xhtml, singleQuotes := true, tagCase := lit "upper" },
  { selfClosing := .xml, compactBoolean := true, attributeCase := lit "upper" },
  { inlineBreak := 0, formatLeafNode := true, indent := [32, 32], baseIndent := [9], newline := [13, 10] },
  { reverseAttributes := true },
  { syn := lit "jsx", jsx := true,
    markupAttributes := [(lit "class", lit "className"), (lit "class*", lit "styleName"), (lit "for", lit "htmlFor")],
    valuePrefix := [(lit "class*", lit "styles")] },
  { syn := lit "xsl", selfClosing := .xml, snippets := mergeTbl Gen.markupSnippets Gen.xslSnippets },
  { text := .lines [lit "foo", [], lit "bar"] },
  { text := .str (lit "x\ny") },
  { syn := lit "vue", markupAttributes := [(lit "class*", lit ":class")] },
  { maxRepeat := some 3 },
  { formatSkip := [], formatForce := [lit "div"], inlineBreak := 1 },
  { contextName := some (lit "ul") },
  { syn := lit "haml" },
  { syn := lit "pug", snippets := mergeTbl Gen.markupSnippets Gen.pugSnippets },
  { syn := lit "slim" },
  { syn := lit "pug", snippets := mergeTbl Gen.markupSnippets Gen.pugSnippets, selfClosing := .xml, compactBoolean := true, indent := [32, 32] },
  { syn := lit "haml", compactBoolean := true, singleQuotes := true, text := .lines [lit "foo", lit "bar"] },
  { syn := lit "slim", text := .str (lit "l1\nl2"), attributeCase := lit "upper" } ]
def showErr : PErr → String
  | .scanner p => s!"scanner {p}" | .token (some p) => s!"token {p}" | .token none => "token None"
  | .internal t => s!"internal {t}" | .fuel => "FUEL"
partial def go (h o : IO.FS.Stream) : IO Unit := do
  let line ← h.getLine
  if line.isEmpty then return ()
  match line.trimAsciiEnd.toString.splitOn ";" with
  | [a, c] =>
    let op := cfgs.getD c.toNat! {}
    o.putStrLn (match expandAny (decode a) op with | .ok s => "ok " ++ hex s | .error e => showErr e)
  | _ => o.putStrLn "BADLINE"
  go h o
def main : IO Unit := do go (← IO.getStdin) (← IO.getStdout)
end Drv.Expand
