import Emmet.Matcher.Html
namespace Drv.Html
open H
def hexVal (ch : Char) : Nat :=
  if ch.isDigit then ch.toNat - '0'.toNat else if 'a' ≤ ch ∧ ch ≤ 'f' then ch.toNat - 'a'.toNat + 10 else 0
def decode (s : String) : List Nat :=
  if s.isEmpty then [] else (s.splitOn ",").map fun h => h.foldl (fun a ch => a * 16 + hexVal ch) 0
def str (s : List Nat) : String := String.ofList (s.map Char.ofNat)
def showEv (e : Ev) : String := s!"{str e.name}:{match e.type with | .open => 1 | .close => 2 | .selfClose => 3}:{e.start}:{e.stop}"
def showM (m : Matched) : String :=
  s!"{str m.name}:{m.openR.1}-{m.openR.2}:{match m.closeR with | some c => s!"{c.1}-{c.2}" | none => "None"}"
partial def go (h o : IO.FS.Stream) : IO Unit := do
  let line ← h.getLine
  if line.isEmpty then return ()
  let s := decode line.trimAsciiEnd.toString
  let evs := scan s
  -- `attributes(src)`: the string read as a bare attribute list
  let attrs := attributesLoop (s.length + 1) s 0 []
  let showA (a : Attr) : String := s!"{a.nameStart}:{a.nameEnd}:{match a.value with | some (_, vs, ve) => s!"{vs}:{ve}" | none => "-"}"
  let mut out := "E " ++ " ".intercalate (evs.map showEv) ++ " | A " ++ " ".intercalate (attrs.map showA)
  for xml in [false, true] do
    for p in List.range (s.length + 3) do
      let pos : Int := (p : Int) - 1
      let m := matchLoop xml pos evs []
      let ow := outwardLoop xml pos evs [] []
      let iw := inwardLoop xml pos evs []
      out := out ++ s!" | {match m with | some x => showM x | none => "None"} ; {" ".intercalate (ow.map showM)} ; {" ".intercalate (iw.map showM)}"
  o.putStrLn out
  go h o
def main : IO Unit := do go (← IO.getStdin) (← IO.getStdout)
end Drv.Html
