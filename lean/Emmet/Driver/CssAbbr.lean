import Emmet.Css.Parser
namespace Drv.CssAbbr
open CA
def hexVal (ch : Char) : Nat :=
  if ch.isDigit then ch.toNat - '0'.toNat else if 'a' ≤ ch ∧ ch ≤ 'f' then ch.toNat - 'a'.toNat + 10 else 0
def decode (s : String) : List Nat :=
  if s.isEmpty then [] else (s.splitOn ",").map fun h => h.foldl (fun a ch => a * 16 + hexVal ch) 0
def hex (s : List Nat) : String := if s.isEmpty then "_" else ",".intercalate (s.map fun n => String.ofList (Nat.toDigits 16 n))
def alphaQ (a : Str) : String :=
  if a.isEmpty then "1/1"
  else match a with
    | 46 :: ds => let n := ds.foldl (fun acc d => acc * 10 + (d - 48)) 0; let den := 10 ^ ds.length; let g := Nat.gcd n den; s!"{n / g}/{den / g}"
    | ds => let n := ds.foldl (fun acc d => acc * 10 + (d - 48)) 0; s!"{n}/1"
def showT (t : Tok) : String :=
  let body := match t.tok with
    | .op ch => s!"Op {ch}"
    | .bracket o => s!"Br {o}"
    | .literal v => s!"Lit {hex v}"
    | .custom v => s!"Cus {hex v}"
    | .number raw u => s!"Num {hex raw} {hex u}"
    | .color r g b a raw => s!"Col {r} {g} {b} {alphaQ a} {hex raw}"
    | .string v sg => s!"Str {hex v} {sg}"
    | .field n i => s!"Fld {hex n} {match i with | some k => toString k | none => "None"}"
    | .ws => "Ws"
  s!"{match t.start with | some s => toString s | none => "None"}:{t.stop}:{body}"
partial def showV : VItem → String
  | .tok t => showT t
  | .fn n args => s!"FN({hex n})[" ++ " ; ".intercalate (args.map fun a => " ".intercalate (a.map showV)) ++ "]"
def showP (p : CssProp) : String :=
  s!"P<{match p.name with | some n => hex n | none => "None"} {p.important} " ++ " , ".intercalate (p.value.map fun v => " ".intercalate (v.map showV)) ++ ">"
def showE : Err → String
  | .scanner p => s!"scanner {p}" | .token (some p) => s!"token {p}" | .token none => "token None" | .internal t => s!"internal {t}" | .fuel => "FUEL"
partial def go (h o : IO.FS.Stream) : IO Unit := do
  let line ← h.getLine
  if line.isEmpty then return ()
  let s := decode line.trimAsciiEnd.toString
  let mut out := ""
  for vm in [false, true] do
    let t := match tokenize s vm with | .ok ts => "ok " ++ " | ".intercalate (ts.map showT) | .error e => showE e
    let p := match parse s vm with | .ok ps => "ok " ++ " ".intercalate (ps.map showP) | .error e => showE e
    out := out ++ t ++ " ## " ++ p ++ " @@ "
  o.putStrLn out
  go h o
def main : IO Unit := do go (← IO.getStdin) (← IO.getStdout)
end Drv.CssAbbr
