import Emmet.Abbr.Convert
namespace Drv.Conv
open T

def hexVal (ch : Char) : Nat :=
  if ch.isDigit then ch.toNat - '0'.toNat else if 'a' ≤ ch ∧ ch ≤ 'f' then ch.toNat - 'a'.toNat + 10 else 0
def decode (s : String) : List Nat :=
  if s.isEmpty || s == "_" then [] else (s.splitOn ",").map fun h => h.foldl (fun a ch => a * 16 + hexVal ch) 0
def hex (s : List Nat) : String := if s.isEmpty then "_" else ",".intercalate (s.map fun n => String.ofList (Nat.toDigits 16 n))

def showV : VTok → String
  | .str s => s!"S({hex s})"
  | .field n i => s!"F({hex n},{i})"
def showVals : Option (List VTok) → String
  | none => "None"
  | some vs => "[" ++ " ".intercalate (vs.map showV) ++ "]"
def showVT : VT → String | .raw => "raw" | .singleQuote => "singleQuote" | .doubleQuote => "doubleQuote" | .expression => "expression"
def showAttr (a : AAttr) : String :=
  s!"<{match a.name with | some n => hex n | none => "None"} {showVals a.value} {showVT a.valueType} {a.boolean} {a.implied} {a.multiple}>"
def showRep : Option Rep → String
  | none => "None" | some r => s!"{r.count}/{r.value}/{r.implicit}"
partial def showNode : ANode → String
  | .mk name value attrs children rep sc =>
    let n := match name with | some n => hex n | none => "None"
    let a := match attrs with | none => "None" | some as => "[" ++ " ".intercalate (as.map showAttr) ++ "]"
    s!"({n} {showVals value} {a} {showRep rep} {sc} [" ++ " ".intercalate (children.map showNode) ++ "])"

def showErr : PErr → String
  | .scanner p => s!"scanner {p}"
  | .token (some p) => s!"token {p}"
  | .token none => "token None"
  | .internal t => s!"internal {t}"
  | .fuel => "FUEL"

def run (abbr : List Nat) (jsx : Bool) (p : ConvParams) : String :=
  match tokenize abbr with
  | .error (.scanner pos) => s!"scanner {pos}"
  | .error .fuel => "FUEL"
  | .ok toks =>
    match parseTokens jsx toks with
    | .error e => showErr e
    | .ok roots =>
      match convert roots p (convFuel toks p) with
      | .error e => showErr e
      | .ok nodes => "ok " ++ " ".intercalate (nodes.map showNode)

def parseText (s : String) : TextArg :=
  if s == "N" then .none
  else if s.startsWith "S:" then .str (decode (s.drop 2).toString)
  else if s == "L:" then .lines []
  else .lines (((s.drop 2).toString.splitOn "|").map decode)
def parseVars (s : String) : Option (List (Str × Str)) :=
  if s == "N" then none else if s == "E" then some []
  else some (((s.drop 2).toString.splitOn "&").map fun kv => match kv.splitOn "=" with | [k, v] => (decode k, decode v) | _ => ([], []))

partial def go (h o : IO.FS.Stream) : IO Unit := do
  let line ← h.getLine
  if line.isEmpty then return ()
  match line.trimAsciiEnd.toString.splitOn ";" with
  | [a, j, t, m, v] =>
    let p : ConvParams := { text := parseText t, variables := parseVars v, maxRepeat := if m == "N" then none else some m.toInt! }
    o.putStrLn (run (decode a) (j == "1") p)
  | _ => o.putStrLn "BADLINE"
  go h o
def main : IO Unit := do go (← IO.getStdin) (← IO.getStdout)
end Drv.Conv
