import Emmet.Action
/-! driver mode `action`: `h;<hex>` / `c;<hex>` → per position the results of the editor action helpers (model) -/
namespace Drv.Action
def hexVal (ch : Char) : Nat :=
  if ch.isDigit then ch.toNat - '0'.toNat else if 'a' ≤ ch ∧ ch ≤ 'f' then ch.toNat - 'a'.toNat + 10 else 0
def decode (s : String) : List Nat :=
  if s.isEmpty || s == "_" then [] else (s.splitOn ",").map fun h => h.foldl (fun a ch => a * 16 + hexVal ch) 0
def str (s : List Nat) : String := String.ofList (s.map Char.ofNat)
def ty (t : H.ElemType) : Nat := match t with | .open => 1 | .close => 2 | .selfClose => 3
def showTag : Option H.Ev → String
  | none => "None"
  | some e => s!"{str e.name}:{ty e.type}:{e.start}:{e.stop}"
def showSel : Option H.Ev → String
  | none => "None"
  | some e => s!"{e.start}:{e.stop}:{e.start + 1}-{e.start + 1 + e.name.length}"
def showRs (rs : List (Int × Int)) : String := ",".intercalate (rs.map fun r => s!"{r.1}-{r.2}")
def showItem : Option C.Item → String
  | none => "None"
  | some i => s!"{i.start}:{i.stop}:{showRs i.ranges}"
def showSec : Option C.Section → String
  | none => "None"
  | some s => s!"{s.start}:{s.stop}:{s.bodyStart}:{s.bodyEnd}"
partial def go (h o : IO.FS.Stream) : IO Unit := do
  let line ← h.getLine
  if line.isEmpty then return ()
  match line.trimAsciiEnd.toString.splitOn ";" with
  | ["h", hx] =>
    let s := decode hx
    let evs := H.scan s
    let mut out := ""
    for p in List.range (s.length + 3) do
      let pos : Int := (p : Int) - 1
      out := out ++ s!"{showTag (H.getOpenTag pos evs)} ; {showSel (H.selectNext pos evs)} ; {showSel (H.selectPrev pos evs none)} | "
    o.putStrLn out
  | ["c", hx] =>
    let s := decode hx
    let evs := C.scan s
    let mut out := ""
    for p in List.range (s.length + 3) do
      let pos : Int := (p : Int) - 1
      out := out ++ s!"{showSec (C.sectionLoop pos evs [])} ; {showItem (C.nextLoop s pos evs none)} ; {showItem (C.selectPrevCss s pos evs)} | "
    o.putStrLn out
  | ["t", hx] => o.putStrLn (" ".intercalate ((H.tokenList (decode hx) 7).map fun r => s!"{r.1}-{r.2}"))
  | _ => o.putStrLn "BADLINE"
  go h o
def main : IO Unit := do go (← IO.getStdin) (← IO.getStdout)
end Drv.Action
