import Emmet.ConfigModel
/-! driver mode `expandg`: `abbrHex;spec[;globalspec]` → outcome of `Cfg.expand`. `spec` is a `&`-joined list of entries
    (see tools/cfgcodec.py, which writes them). -/
namespace Drv.ExpandG
open Cfg
def hexVal (ch : Char) : Nat :=
  if ch.isDigit then ch.toNat - '0'.toNat else if 'a' ≤ ch ∧ ch ≤ 'f' then ch.toNat - 'a'.toNat + 10 else 0
def decode (s : String) : List Nat :=
  if s.isEmpty || s == "_" then [] else (s.splitOn ",").map fun h => h.foldl (fun a ch => a * 16 + hexVal ch) 0
def hex (s : List Nat) : String := if s.isEmpty then "_" else ",".intercalate (s.map fun n => String.ofList (Nat.toDigits 16 n))
def dstr (s : String) : String := strOf (decode s)

def splitList (s : String) : List String := if s.isEmpty then [] else s.splitOn "|"
def parseVal (v : String) : Option OptVal :=
  let body := (v.drop 1).toString
  match v.front with
  | 'b' => some (.b (body == "1"))
  | 'n' => some (.n body.toInt!)
  | 's' => some (.s (decode body))
  | 'l' => some (.l ((splitList body).map decode))
  | 'd' => some (.d ((splitList body).map fun kv => match kv.splitOn ":" with | [k, x] => (decode k, decode x) | _ => ([], [])))
  | _ => none

def addOpt (o : Option (Dict String OptVal)) (k : String) (v : OptVal) : Option (Dict String OptVal) := some (set (o.getD []) k v)
def addKV (o : Option (Dict T.Str T.Str)) (k v : T.Str) : Option (Dict T.Str T.Str) := some (set (o.getD []) k v)

def kv (s : String) : String × String := match s.splitOn "=" with | [a, b] => (a, b) | [a] => (a, "") | _ => ("", "")

def applyEntry (u : RawConfig) (e : String) : RawConfig :=
  if e.startsWith "ty=" then { u with type := some (decode (e.drop 3).toString) }
  else if e.startsWith "sy=" then { u with syn := some (decode (e.drop 3).toString) }
  else if e.startsWith "tx=S:" then { u with text := .str (decode (e.drop 5).toString) }
  else if e.startsWith "tx=L:" then { u with text := .lines ((splitList (e.drop 5).toString).map decode) }
  else if e.startsWith "mr=" then { u with maxRepeat := some (e.drop 3).toString.toInt! }
  else if e.startsWith "cx=" then { u with contextName := some (decode (e.drop 3).toString) }
  else if e == "o" then { u with options := some (u.options.getD []) }
  else if e == "sn" then { u with snippets := some (u.snippets.getD []) }
  else if e == "vr" then { u with variables := some (u.variables.getD []) }
  else if e.startsWith "o:" then
    let (k, v) := kv (e.drop 2).toString
    match parseVal v with | some x => { u with options := addOpt u.options (dstr k) x } | none => u
  else if e.startsWith "sn:" then let (k, v) := kv (e.drop 3).toString; { u with snippets := addKV u.snippets (decode k) (decode v) }
  else if e.startsWith "vr:" then let (k, v) := kv (e.drop 3).toString; { u with variables := addKV u.variables (decode k) (decode v) }
  else u

def parseSpec (s : String) : RawConfig := (if s.isEmpty then [] else s.splitOn "&").foldl applyEntry {}

/-- global config: entries `<layerNameHex>/<entry>` with entry as above restricted to o / sn / vr -/
def applyGlobal (g : GlobalConfig) (e : String) : GlobalConfig :=
  match e.splitOn "/" with
  | [nm, ent] =>
    let name := decode nm
    let cur : Layer := globalLayer g name
    let asRaw : RawConfig := { options := cur.options, snippets := cur.snippets, variables := cur.variables }
    let r := applyEntry asRaw ent
    let l : Layer := { options := r.options, snippets := r.snippets, variables := r.variables }
    if g.any (·.1 == name) then g.map (fun x => if x.1 == name then (name, l) else x) else g ++ [(name, l)]
  | _ => g
def parseGlobal (s : String) : GlobalConfig := (if s.isEmpty then [] else s.splitOn "&").foldl applyGlobal []

def showOutcome : Outcome → String
  | .ok s => "ok " ++ hex s
  | .scanner p => s!"scanner {p}"
  | .token (some p) => s!"token {p}"
  | .token none => "token None"
  | .internal t => s!"internal {t}"
  | .fuel => "FUEL"

/-- the converted stylesheet snippet table is cached per distinct table (the model's `convertSnippets` is pure; this only
    saves time) -/
def run (cache : IO.Ref (List (List (T.Str × T.Str) × Except CA.Err (Array CA.Snippet)))) (a : List Nat) (u : RawConfig) (g : GlobalConfig) (tieFirst : Bool := false) : IO Outcome := do
  if typeOf u == T.lit "stylesheet" then
    let tbl := mergedSnippets u g
    let c ← cache.get
    let sn ← (match c.find? (fun e => e.1 == tbl) with
      | some (_, r) => pure r
      | none => do
        let r := CA.convertSnippets tbl
        cache.set ((tbl, r) :: c.take 8)
        pure r)
    match sn with
    | .error e => return ofCss (.error e)
    | .ok arr => return ofCss (CA.expandStylesheetPre a arr { stylesheetOptions u g with tieFirst := tieFirst })
  else return expand a u g

partial def go (cache : IO.Ref (List (List (T.Str × T.Str) × Except CA.Err (Array CA.Snippet)))) (h o : IO.FS.Stream) : IO Unit := do
  -- stylesheet: both resolutions of exactly tied fuzzy candidates (`A ~~ B` when they differ)
  let both (a : List Nat) (u : RawConfig) (g : GlobalConfig) : IO String := do
    let r1 := showOutcome (← run cache a u g false)
    if typeOf u == T.lit "stylesheet" then
      let r2 := showOutcome (← run cache a u g true)
      return (if r1 == r2 then r1 else r1 ++ " ~~ " ++ r2)
    else return r1
  let line ← h.getLine
  if line.isEmpty then return ()
  match line.trimAsciiEnd.toString.splitOn ";" with
  | [a, c] => o.putStrLn (← both (decode a) (parseSpec c) [])
  | [a, c, g] => o.putStrLn (← both (decode a) (parseSpec c) (parseGlobal g))
  | _ => o.putStrLn "BADLINE"
  go cache h o
/-! mode `resolve`: `spec;globalspec;probe,probe,…` → the resolved value of each probed key (`o:<keyhex>`, `sn:<keyhex>`, `vr:<keyhex>`) -/
def showVal : OptVal → String
  | .b v => if v then "b1" else "b0"
  | .n v => s!"n{v}"
  | .s v => "s" ++ hex v
  | .l v => "l" ++ "|".intercalate (v.map hex)
  | .d v => "d" ++ "|".intercalate (v.map fun kv => hex kv.1 ++ ":" ++ hex kv.2)
def probe (u : RawConfig) (g : GlobalConfig) (p : String) : String :=
  if p.startsWith "o:" then match get? (mergedOptions u g) (dstr (p.drop 2).toString) with | some v => showVal v | none => "None"
  else if p.startsWith "sn:" then match get? (mergedSnippets u g) (decode (p.drop 3).toString) with | some v => "s" ++ hex v | none => "None"
  else if p.startsWith "vr:" then match get? (mergedVariables u g) (decode (p.drop 3).toString) with | some v => "s" ++ hex v | none => "None"
  else if p == "ty" then "s" ++ hex (typeOf u)
  else if p == "sy" then "s" ++ hex (syntaxOf u)
  else "?"
partial def goResolve (h o : IO.FS.Stream) : IO Unit := do
  let line ← h.getLine
  if line.isEmpty then return ()
  match line.trimAsciiEnd.toString.splitOn ";" with
  | [c, g, ps] =>
    let u := parseSpec c; let gl := parseGlobal g
    o.putStrLn (" ".intercalate ((ps.splitOn "~").map (probe u gl)))
  | _ => o.putStrLn "BADLINE"
  goResolve h o
def mainResolve : IO Unit := do goResolve (← IO.getStdin) (← IO.getStdout)

def main : IO Unit := do go (← IO.mkRef []) (← IO.getStdin) (← IO.getStdout)
end Drv.ExpandG
