import Emmet.Extract
namespace Drv.Extract
open X
def hexVal (ch : Char) : Nat :=
  if ch.isDigit then ch.toNat - '0'.toNat else if 'a' ≤ ch ∧ ch ≤ 'f' then ch.toNat - 'a'.toNat + 10 else 0
def decode (s : String) : List Nat :=
  if s.isEmpty then [] else (s.splitOn ",").map fun h => h.foldl (fun a ch => a * 16 + hexVal ch) 0
def hex (s : List Nat) : String := ",".intercalate (s.map fun n => String.ofList (Nat.toDigits 16 n))
def optsList : List Opts := [{}, {markup := false}, {lookAhead := false}, {pfx := [60]}, {pfx := [101, 109, 58], lookAhead := false}, {pfx := [60], markup := false}]
partial def go (h o : IO.FS.Stream) : IO Unit := do
  let line ← h.getLine
  if line.isEmpty then return ()
  let s := decode line.trimAsciiEnd.toString
  let mut out := ""
  for op in optsList do
    for p in List.range (s.length + 3) do
      let pos : Int := (p : Int) - 1
      out := out ++ (match extract s pos op with
        | some r => s!"[{hex r.abbreviation}]:{r.location}:{r.start}:{r.stop} "
        | none => "N ")
  o.putStrLn out
  go h o
def main : IO Unit := do go (← IO.getStdin) (← IO.getStdout)
end Drv.Extract
