import Emmet.MathExtract
namespace Drv.Math
open M
def hexVal (ch : Char) : Nat :=
  if ch.isDigit then ch.toNat - '0'.toNat else if 'a' ≤ ch ∧ ch ≤ 'f' then ch.toNat - 'a'.toNat + 10 else 0
def decode (s : String) : List Nat :=
  if s.isEmpty then [] else (s.splitOn ",").map fun h => h.foldl (fun a ch => a * 16 + hexVal ch) 0
def showQ (q : Q) : String := let n := q.norm; s!"{n.num}/{n.den}"
def showTok (t : Token) : String :=
  match t.type with
  | .num => s!"num:{showQ t.value}:{t.priority}"
  | .op1 => s!"op1:{t.op}:{t.priority}"
  | .op2 => s!"op2:{t.op}:{t.priority}"
  | .null => "null"
def showErr : MErr → String
  | .math p => s!"math {p}" | .mathNoPos => "math None" | .zeroDiv => "zerodiv" | .internal t => s!"internal {t}" | .fuel => "FUEL"
partial def go (h o : IO.FS.Stream) : IO Unit := do
  let line ← h.getLine
  if line.isEmpty then return ()
  let s := decode line.trimAsciiEnd.toString
  let p := match parse s with | .ok ts => "ok " ++ " ".intercalate (ts.map showTok) | .error e => showErr e
  let e := match evaluate s with | .ok (some q) => "ok " ++ showQ q | .ok none => "ok None" | .error e => showErr e
  -- extract(): every position 0..len under the four option sets (lookAhead, whitespace)
  let mut x := ""
  for (la, ws) in [(true, true), (true, false), (false, true), (false, false)] do
    for pos in List.range (s.length + 1) do
      x := x ++ (match extract s pos la ws with | some (a, b) => s!"{a}-{b} " | none => "N ")
    x := x ++ "/ "
  o.putStrLn (p ++ " || " ++ e ++ " || " ++ x.trimAsciiEnd.toString)
  go h o
def main : IO Unit := do go (← IO.getStdin) (← IO.getStdout)
end Drv.Math
