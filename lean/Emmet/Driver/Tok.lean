import Emmet.Abbr.Tok
namespace Drv.Tok
open T

def hexVal (ch : Char) : Nat :=
  if ch.isDigit then ch.toNat - '0'.toNat else if 'a' ≤ ch ∧ ch ≤ 'f' then ch.toNat - 'a'.toNat + 10 else 0
def decode (line : String) : List Nat :=
  if line.isEmpty then [] else (line.splitOn ",").map fun h => h.foldl (fun a ch => a * 16 + hexVal ch) 0
def hex (s : List Nat) : String := ",".intercalate (s.map fun n => String.ofList (Nat.toDigits 16 n))
def showOp : OpKind → String
  | .child => "child" | .sibling => "sibling" | .climb => "climb" | .cls => "class" | .id => "id" | .close => "close" | .equal => "equal"
def showCtx : BrCtx → String | .group => "group" | .attribute => "attribute" | .expression => "expression"
def showTok (t : Tok) : String :=
  let body := match t.tok with
    | .repeater c i => s!"Repeater {c} {i}"
    | .repeaterNumber s r b p => s!"RepeaterNumber {s} {r} {b} {p}"
    | .repeaterPlaceholder => "RepeaterPlaceholder"
    | .field n i => s!"Field [{hex n}] {match i with | some k => toString k | none => "None"}"
    | .operator o => s!"Operator {showOp o}"
    | .bracket o k => s!"Bracket {o} {showCtx k}"
    | .quote sg => s!"Quote {sg}"
    | .literal v => s!"Literal [{hex v}]"
    | .whiteSpace v => s!"WhiteSpace [{hex v}]"
  s!"{t.start}:{t.stop}:{body}"
def showRes : Except Err (List Tok) → String
  | .ok ts => "ok " ++ " | ".intercalate (ts.map showTok)
  | .error (.scanner p) => s!"err {p}"
  | .error .fuel => "FUEL"
partial def go (h o : IO.FS.Stream) : IO Unit := do
  let line ← h.getLine
  if line.isEmpty then return ()
  o.putStrLn (showRes (tokenize (decode line.trimAsciiEnd.toString)))
  go h o
def main : IO Unit := do go (← IO.getStdin) (← IO.getStdout)
end Drv.Tok
