import Emmet.Matcher.CssMatch
namespace Drv.Css
open C
def hexVal (ch : Char) : Nat :=
  if ch.isDigit then ch.toNat - '0'.toNat else if 'a' ≤ ch ∧ ch ≤ 'f' then ch.toNat - 'a'.toNat + 10 else 0
def decode (s : String) : List Nat :=
  if s.isEmpty then [] else (s.splitOn ",").map fun h => h.foldl (fun a ch => a * 16 + hexVal ch) 0
def showEv (e : Ev) : String :=
  s!"{match e.type with | .selector => "selector" | .propertyName => "propertyName" | .propertyValue => "propertyValue" | .blockEnd => "blockEnd"}:{e.start}:{e.stop}:{e.delimiter}"
def showR (r : Int × Int) : String := s!"{r.1}-{r.2}"
partial def go (h o : IO.FS.Stream) : IO Unit := do
  let line ← h.getLine
  if line.isEmpty then return ()
  let s := decode line.trimAsciiEnd.toString
  let src := s.toArray
  let evs := scan s
  let mut out := "E " ++ " ".intercalate (evs.map showEv) ++ " | S " ++ " ".intercalate ((splitValue s).map showR)
  for p in List.range (s.length + 3) do
    let pos : Int := (p : Int) - 1
    let m := matchLoop pos evs [] none
    let ow := outwardLoop src pos evs [] none []
    let iw := inwardLoop src pos evs [] none
    out := out ++ s!" | {match m with | some x => s!"{x.type}:{x.start}:{x.stop}:{x.bodyStart}:{x.bodyEnd}" | none => "None"} ; {" ".intercalate (ow.map showR)} ; {" ".intercalate (iw.map showR)}"
  o.putStrLn out
  go h o
def main : IO Unit := do go (← IO.getStdin) (← IO.getStdout)
end Drv.Css
