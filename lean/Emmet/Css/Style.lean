import Emmet.Css.Parser
import Emmet.Generated.Css
/-! Model of emmet/stylesheet (snippets.py, score.py, color.py, __init__.py, format.py); no context scopes, no JSON mode. -/
namespace CA

def lit (s : String) : Str := s.toList.map Char.toNat
def lowerCh (ch : Ch) : Ch := if 65 ≤ ch && ch ≤ 90 then ch + 32 else ch
def lower (s : Str) : Str := s.map lowerCh

/-! ### score.py with exact fractions -/
def scoreInner (s2 : Str) (ch1 : Ch) : Nat → Nat → Bool → Bool × Nat × Bool
  | 0, j, ac => (false, j, ac)
  | fuel+1, j, ac =>
    if j < s2.length then
      let ch2 := s2.getD j 0
      if ch1 == ch2 then (true, j, ac) else scoreInner s2 ch1 fuel (j + 1) (ch2 == 45)
    else (false, j, ac)
def scoreOuter (s1 s2 : Str) (partialM : Bool) (mx : Nat) : Nat → Nat → Nat → Nat → Option (Nat × Nat)
  | 0, i, _, sc => some (i, sc)
  | fuel+1, i, j, sc =>
    if i < s1.length then
      let (found, j', ac) := scoreInner s2 (s1.getD i 0) (s2.length + 1) j false
      if found then scoreOuter s1 s2 partialM mx fuel (i + 1) j' (sc + (mx - (if ac then i else j')))
      else if partialM then some (i, sc) else none
    else some (i, sc)
/-- score as num/den; (1,1) for equal strings, (0,1) for no match -/
def calcScore (a b : Str) (partialM : Bool) : Nat × Nat :=
  let s1 := lower a; let s2 := lower b
  if s1 == s2 then (1, 1)
  else if s1.isEmpty || s2.isEmpty || s1.getD 0 0 != s2.getD 0 0 then (0, 1)
  else if !partialM && s1.length > s2.length then (0, 1)
  else
    let mn := min s1.length s2.length; let mx := max s1.length s2.length
    match scoreOuter s1 s2 partialM mx (s1.length + 1) 1 1 mx with
    | none => (0, 1)
    | some (i, sc) => (2 * sc * i, mx * (mx * (mx + 1) - (mx - mn) * (mx - mn + 1)))
def qGe (r s : Nat × Nat) : Bool := r.1 * s.2 ≥ s.1 * r.2
def qGt (r s : Nat × Nat) : Bool := r.1 * s.2 > s.1 * r.2
/-- `find_best_match`: index of the chosen item. The code computes the scores in IEEE doubles and keeps a candidate when
    `score >= max_score`: between two candidates whose EXACT scores are equal, the winner depends on the rounding of the two double
    computations (`anuim` scores 9/35 against both `anim` and `animdur`; as doubles 0.2571428571428572 and 0.2571428571428571). The
    model computes exact fractions; `tieFirst` selects which of two exactly tied candidates wins (false: the later one, as `>=` on
    equal numbers; true: the earlier one). The drivers run both and report both outcomes when they differ. -/
def findBest (abbr : Str) (items : List Str) (minScore : Nat × Nat) (partialM : Bool) (tieFirst : Bool := false) : Option Nat :=
  let rec go : List Str → Nat → (Nat × Nat) → Option Nat → Option Nat
    | [], _, mxs, best => if qGe mxs minScore then best else none
    | k :: ks, i, mxs, best =>
      let sc := calcScore abbr k partialM
      if sc.1 == sc.2 then some i                                       -- score == 1
      else if sc.1 != 0 && (if tieFirst then qGt sc mxs else qGe sc mxs) then go ks (i + 1) sc (some i)
      else go ks (i + 1) mxs best
  go items 0 (0, 1) none

/-! ### snippets.py -/
inductive KwVal | lit (t : Tok) | fn (name : Str) (args : List (List VItem))
structure Snippet where
  key : Str
  isProperty : Bool
  raw : Str := []                                -- raw snippets: the text
  property : Str := []
  value : List (List (List VItem)) := []         -- choices → CSSValues → tokens
  keywords : List (Str × KwVal) := []            -- ordered dict
  deps : List Nat := []
instance : Inhabited Snippet := ⟨{ key := [], isProperty := false }⟩

def pyIsSpace (ch : Ch) : Bool := ch == 9 || ch == 10 || ch == 11 || ch == 12 || ch == 13 || (28 ≤ ch && ch ≤ 32) || ch == 133 || ch == 160
def lstrip : Str → Str | x :: xs => if pyIsSpace x then lstrip xs else x :: xs | [] => []
def strip (s : Str) : Str := (lstrip (lstrip s).reverse).reverse
def splitOnCh (c : Ch) : Str → Str → List Str
  | [], cur => [cur.reverse]
  | x :: xs, cur => if x == c then cur.reverse :: splitOnCh c xs [] else splitOnCh c xs (x :: cur)

/-- `re_property`: (property, value text?) -/
def matchProperty (v : Str) : Option (Str × Option Str) :=
  let (p, r) := spanP (fun ch => (97 ≤ ch && ch ≤ 122) || ch == 45) v
  if p.isEmpty then none
  else if r.isEmpty then some (p, none)
  else
    -- backtracking on group 1 cannot help: the next char must be ws or ':' which are not in [a-z-]
    let r1 := lstrip' r
    match r1 with
    | 58 :: r2 =>
      let r3 := lstrip' r2
      let (body, tail) := spanP (fun ch => ch != 10 && ch != 13 && ch != 59) r3
      if body.isEmpty then none
      else if tail.all (· == 59) then some (p, some body) else none
    | _ => none
where lstrip' : Str → Str                     -- `\s*` (ASCII part)
  | x :: xs => if pyIsSpace x then lstrip' xs else x :: xs
  | [] => []

def dictSet (d : List (Str × KwVal)) (k : Str) (v : KwVal) : List (Str × KwVal) :=
  if d.any (·.1 == k) then d.map (fun kv => if kv.1 == k then (k, v) else kv) else d ++ [(k, v)]
def collectKeywords (d : List (Str × KwVal)) (cssVal : List VItem) : List (Str × KwVal) :=
  cssVal.foldl (fun acc v =>
    match v with
    | .tok t =>
      match t.tok with
      | .literal s => dictSet acc s (.lit t)
      | .field name _ => let nm := strip name; if nm.isEmpty then acc else dictSet acc nm (.lit ⟨.literal nm, none, 0⟩)
      | _ => acc
    | .fn name args => dictSet acc name (.fn name args)) d

def createSnippet (key value : Str) : Except Err Snippet :=
  match matchProperty value with
  | some (prop, body) => do
    let parsed ← (match body with
      | some b => (splitOnCh 124 b []).mapM (fun v => do
          let ps ← parse (strip v) true
          match ps with
          | p :: _ => pure p.value
          | [] => .error (.internal "IndexError"))
      | none => pure [])
    let kws := parsed.foldl (fun acc item => item.foldl collectKeywords acc) []
    return { key := key, isProperty := true, property := prop, value := parsed, keywords := kws }
  | none => return { key := key, isProperty := false, raw := value }

def strLt : Str → Str → Bool
  | [], [] => false
  | [], _ :: _ => true
  | _ :: _, [] => false
  | a :: as, b :: bs => if a < b then true else if a > b then false else strLt as bs
def insertSorted (s : Snippet) : List Snippet → List Snippet
  | [] => [s]
  | x :: xs => if strLt s.key x.key then s :: x :: xs else x :: insertSorted s xs
def startsWith (s p : Str) : Bool := s.take p.length == p

/-- `nest`: dependency indices -/
def nest (sn : Array Snippet) : Array Snippet := Id.run do
  let mut arr := sn
  let mut stack : List Nat := []
  for i in [0:sn.size] do
    let cur := arr[i]!
    if cur.isProperty then
      let mut st := stack
      let mut placed := false
      let mut fuel := st.length + 1
      while !placed && !st.isEmpty && fuel > 0 do
        fuel := fuel - 1
        let pi := st.head!
        let prev := arr[pi]!
        if startsWith cur.property prev.property && cur.property.length > prev.property.length && cur.property.getD prev.property.length 0 == 45 then
          arr := arr.set! pi { prev with deps := prev.deps ++ [i] }
          st := i :: st
          placed := true
        else st := st.tail!
      if st.isEmpty then st := [i]
      stack := st
  return arr

def convertSnippets (tbl : List (Str × Str)) : Except Err (Array Snippet) := do
  let sn ← tbl.mapM (fun kv => createSnippet kv.1 kv.2)
  let sorted := sn.foldl (fun acc s => insertSorted s acc) []
  return nest sorted.toArray

/-! ### options -/
structure SOpts where
  keywords : List Str := Gen.keywords
  unitless : List Str := Gen.unitless
  shortHex : Bool := true
  between : Str := [58, 32]
  after : Str := [59]
  intUnit : Str := lit "px"
  floatUnit : Str := lit "em"
  unitAliases : List (Str × Str) := Gen.unitAliases
  skipUnmatched : Bool := true
  format : Bool := true
  newline : Str := [10]
  baseIndent : Str := []
  indent : Str := [9]
  scope : Option Str := none          -- config.context['name'] when it is one of the `@@…` scopes that only filter
  tieFirst : Bool := false            -- which of two EXACTLY tied fuzzy candidates wins (see `findBest`); not an option of the code

/-! ### color.py / frac -/
def natToStr (n : Nat) : Str := (toString n).toList.map Char.toNat
def hexLower (n : Nat) : Str := (Nat.toDigits 16 n).map Char.toNat
def toHex (n : Nat) : Str := let h := hexLower n; List.replicate (2 - h.length) 48 ++ h        -- rjust(2, "0")
def stripZeros (s : Str) : Str := (s.reverse.dropWhile (· == 48)).reverse
/-- `frac` on a raw decimal text with at most `digits` fraction digits; none = outside the exact fragment -/
def fracRaw (raw : Str) (digits : Nat) : Option Str :=
  let (sign, r) := match raw with | 45 :: r => ([45], r) | _ => ([], raw)
  let (ip, r1) := spanP isNumber r
  let fp := match r1 with | 46 :: f => f | _ => []
  if fp.length > digits then none else
  let ip' := let t := ip.dropWhile (· == 48); if t.isEmpty then [48] else t
  let fp' := stripZeros fp
  some (sign ++ ip' ++ (if fp'.isEmpty then [] else 46 :: fp'))
def alphaIsOne (a : Str) : Bool := a.isEmpty || a == [49] || (match a with | 46 :: _ => false | ds => ds.all (· == 48) == false && stripZeros ds == [49])
def alphaIsZero (a : Str) : Bool := match a with | [] => false | 46 :: ds => ds.all (· == 48) | ds => ds.all (· == 48)
def colorStr (r g b : Nat) (alpha : Str) (short : Bool) : Option Str :=
  if r == 0 && g == 0 && b == 0 && alphaIsZero alpha then some (lit "transparent")
  else if alphaIsOne alpha then
    if short && r % 17 == 0 && g % 17 == 0 && b % 17 == 0 then some ([35] ++ hexLower (r / 16) ++ hexLower (g / 16) ++ hexLower (b / 16))
    else some ([35] ++ toHex r ++ toHex g ++ toHex b)
  else do
    let a ← fracRaw (match alpha with | 46 :: ds => 48 :: 46 :: ds | ds => ds) 8
    some (lit "rgba(" ++ natToStr r ++ [44, 32] ++ natToStr g ++ [44, 32] ++ natToStr b ++ [44, 32] ++ a ++ [41])

/-! ### resolver -/
structure Node where
  name : Option Str
  value : List (List VItem)
  important : Bool
  snippet : Option (Option Nat) := none      -- None | True(gradient: some none) | snippet index (some (some i))

def getUnmatchedPart (abbr text : Str) : Str :=
  let rec go : Str → Str → Str
    | [], _ => []
    | ch :: rest, t =>
      match t.dropWhile (· != ch) with
      | [] => ch :: rest
      | _ :: t' => go rest t'
  go abbr text

def kwToItem : KwVal → VItem | .lit t => .tok t | .fn n a => .fn n a

def resolveKeyword (sn : Array Snippet) (o : SOpts) (kw : Str) (snip : Option Nat) (minScore : Nat × Nat) : Option VItem :=
  let fromSnippet : Option VItem := do
    let i ← snip
    let s := sn[i]!
    match findBest kw (s.keywords.map (·.1)) minScore false o.tieFirst with
    | some k => some (kwToItem ((s.keywords.getD k ([], .lit ⟨.ws, none, 0⟩)).2))
    | none =>
      s.deps.findSome? fun d =>
        let ds := sn[d]!
        (findBest kw (ds.keywords.map (·.1)) minScore false o.tieFirst).map fun k => kwToItem ((ds.keywords.getD k ([], .lit ⟨.ws, none, 0⟩)).2)
  match fromSnippet with
  | some v => some v
  | none => (findBest kw o.keywords minScore false o.tieFirst).map fun k => .tok ⟨.literal (o.keywords.getD k []), none, 0⟩
-- NB: Literal(ref) created by the resolver has start = end = None; `stop := 0` is a placeholder, see `endOf`.

def resolveValueKeywords (sn : Array Snippet) (o : SOpts) (snip : Option Nat) (vals : List (List VItem)) : List (List VItem) :=
  vals.map fun cssVal => cssVal.map fun it =>
    match it with
    | .tok t =>
      match t.tok with
      | .literal s => (resolveKeyword sn o s snip (0, 1)).getD it
      | _ => it
    | .fn name args =>
      match resolveKeyword sn o name snip (0, 1) with
      | some (.fn mname margs) => .fn mname (args ++ margs.drop args.length)
      | _ => it

def hasField : Nat → List VItem → Bool
  | 0, _ => false
  | fuel+1, v => v.any fun it => match it with
    | .tok t => (match t.tok with | .field .. => true | _ => false)
    | .fn _ args => args.any (hasField fuel)

/-- spans: resolver-made tokens have `None` spans. We mark them with start = none and a flag in `stop` is not enough,
    so `Tok.start = none` means BOTH start and end are None for literals/fields made by the resolver. -/
def mkLit (s : Str) : VItem := .tok ⟨.literal s, none, 0⟩
def mkField (name : Str) (i : Nat) : VItem := .tok ⟨.field name (some i), none, 0⟩

def wrapWithField (o : SOpts) : Nat → List VItem → Nat → Except Err (List VItem × Nat)
  | 0, _, _ => .error .fuel
  | fuel+1, v, idx =>
    v.foldlM (fun (acc : List VItem × Nat) it =>
      let (out, i) := acc
      match it with
      | .tok t =>
        match t.tok with
        | .color r g b a _ =>
          match colorStr r g b a o.shortHex with
          | some c => pure (out ++ [mkField c i], i + 1)
          | none => .error (.internal "unmodelled")
        | .literal s => pure (out ++ [mkField s i], i + 1)
        | .number raw unit => pure (out ++ [mkField (raw ++ unit) i], i + 1)      -- ''.join((v.raw_value, v.unit))
        | .string s single => let q : Str := if single then [39] else [34]; pure (out ++ [mkField (q ++ s ++ q) i], i + 1)
        | _ => pure (out ++ [it], i)
      | .fn name args => do
        let mut cur := out ++ [mkField name i, mkLit [40]]
        let mut j := i + 1
        let n := args.length
        let mut k := 0
        for a in args do
          let (w, j') ← wrapWithField o fuel a j
          cur := cur ++ w
          j := j'
          if k + 1 != n then cur := cur ++ [mkLit [44, 32]]
          k := k + 1
        pure (cur ++ [mkLit [41]], j)) ([], idx)

/-- `resolve_as_snippet`: `\$\{(\d+)(:[^}]+)?\}` -/
def parseRaw (o : Str) : List (Sum Str (Nat × Str)) :=
  let rec go (fuel : Nat) (s : Str) (cur : Str) (acc : List (Sum Str (Nat × Str))) : List (Sum Str (Nat × Str)) :=
    match fuel, s with
    | 0, _ => acc.reverse
    | _, [] => (if cur.isEmpty then acc else .inl cur.reverse :: acc).reverse
    | f+1, 36 :: 123 :: r =>
      let (ds, r1) := spanP isNumber r
      let fld : Option (Str × Str) :=
        if ds.isEmpty then none else
        match r1 with
        | 125 :: r2 => some ([], r2)
        | 58 :: r2 =>
          let (ph, r3) := spanP (· != 125) r2
          if ph.isEmpty then none else (match r3 with | 125 :: r4 => some (ph, r4) | _ => none)
        | _ => none
      match fld with
      | some (ph, rest) =>
        let acc1 := if cur.isEmpty then acc else .inl cur.reverse :: acc
        go f rest [] (.inr (ds.foldl (fun a d => a * 10 + (d - 48)) 0, ph) :: acc1)
      | none => go f (123 :: r) (36 :: cur) acc
    | f+1, x :: r => go f r (x :: cur) acc
  go (o.length + 1) o [] []

def resolveAsSnippet (raw : Str) (node : Node) : Node :=
  let input : List VItem := match node.value with | v :: _ => v | [] => []
  let (outv, _) := (parseRaw raw).foldl (fun (acc : List VItem × List VItem) piece =>
    match piece with
    | .inl s => (acc.1 ++ [mkLit s], acc.2)
    | .inr (i, ph) =>
      match acc.2 with
      | v :: rest => (acc.1 ++ [v], rest)
      | [] => (acc.1 ++ [mkField ph i], [])) ([], input)
  { node with name := none, value := [outv] }

def resolveNumeric (o : SOpts) (name : Option Str) (vals : List (List VItem)) : List (List VItem) :=
  vals.map fun cssVal => cssVal.map fun it =>
    match it with
    | .tok t =>
      match t.tok with
      | .number raw unit =>
        if !unit.isEmpty then .tok { t with tok := .number raw ((o.unitAliases.find? (·.1 == unit)).map (·.2) |>.getD unit) }
        else
          let isZero := (raw.filter isNumber).all (· == 48)
          if !isZero && !(match name with | some n => o.unitless.contains n | none => false) then
            .tok { t with tok := .number raw (if raw.contains 46 then o.floatUnit else o.intUnit) }
          else it
      | _ => it
    | other => other

def scopeOK (o : SOpts) (s : Snippet) : Bool :=
  if o.scope == some (lit "@@section") then !s.isProperty
  else if o.scope == some (lit "@@property") then s.isProperty
  else true

def resolveNode (sn : Array Snippet) (o : SOpts) (node : Node) : Except Err Node := do
  -- gradient
  let gfn : Option (List (List VItem)) := match node.value with
    | [[.fn name args]] => if name == lit "lg" then some args else none
    | _ => none
  let node1 ← (
    if gfn.isSome || node.name == some (lit "lg") then
      let args := match gfn with | some a => a | none => [[mkField [] 0]]
      pure { node with name := some (lit "background-image"), value := [[.fn (lit "linear-gradient") args]], snippet := some none }
    else
      match node.name with
      | some nm =>
        if nm.isEmpty then pure node else
        -- `get_snippets_for_scope`: `@@section` keeps raw snippets only, `@@property` property snippets only
        let cands := sn.toList.zipIdx.filter (fun p => scopeOK o p.1)
        match findBest nm (cands.map (·.1.key)) (0, 1) true o.tieFirst with
        | none => pure node
        | some ci =>
          let si := (cands.getD ci (default, 0)).2
          let s := sn[si]!
          let n0 := { node with snippet := some (some si) }
          if s.isProperty then
            let inline := getUnmatchedPart nm s.key
            let n1 := { n0 with name := some s.property }
            if !inline.isEmpty && !n1.value.isEmpty then pure n1
            else do
              let n2? : Option Node ← (
                if !inline.isEmpty then
                  match resolveKeyword sn o inline (some si) (0, 1) with
                  | none => pure (some (if o.skipUnmatched then { n1 with snippet := none } else n1)) -- early return marker below
                  | some kw => pure (some { n1 with value := n1.value ++ [[kw]] })
                else pure (some n1) : Except Err (Option Node))
              let n2 := n2?.getD n1
              let early := !inline.isEmpty && (resolveKeyword sn o inline (some si) (0, 1)).isNone
              if early then pure n2
              else if !n2.value.isEmpty then pure { n2 with value := resolveValueKeywords sn o (some si) n2.value }
              else
                match s.value with
                | dv :: rest =>
                  if rest.isEmpty || dv.any (hasField 100) then pure { n2 with value := dv }
                  else do
                    let wrapped ← dv.mapM (fun v => do let (w, _) ← wrapWithField o 100 v 1; pure w)
                    pure { n2 with value := wrapped }
                | [] => pure n2
          else pure (resolveAsSnippet s.raw n0)
      | none => pure node : Except Err Node)
  if (match node1.name with | some n => !n.isEmpty | none => false) then
    return { node1 with value := resolveNumeric o node1.name node1.value }
  else return node1

/-! ### format.py -/
structure Out where
  buf : Str := []
def isLineBreak (ch : Ch) : Bool := ch == 10 || ch == 13 || ch == 11 || ch == 12 || ch == 28 || ch == 29 || ch == 30 || ch == 133 || ch == 0x2028 || ch == 0x2029
def splitLines : Str → Str → List Str
  | [], cur => if cur.isEmpty then [] else [cur.reverse]
  | 13 :: 10 :: r, cur => cur.reverse :: splitLines r []
  | x :: r, cur => if isLineBreak x then cur.reverse :: splitLines r [] else splitLines r (x :: cur)
def Out.push (o : Out) (s : Str) : Out := { buf := o.buf ++ s }
def Out.pushString (o : Out) (op : SOpts) (s : Str) : Out :=
  match splitLines s [] with
  | [] => o
  | l :: ls => ls.foldl (fun acc ln => (acc.push (op.newline ++ op.baseIndent)).push ln) (o.push l)      -- push_newline(True) at level 0: newline + baseIndent
def Out.pushField (o : Out) (index : Nat) (ph : Str) : Out :=
  o.push (if ph.isEmpty then [36, 123] ++ natToStr index ++ [125] else [36, 123] ++ natToStr index ++ [58] ++ ph ++ [125])

/-- prev_end / start as Python values: none = None, some (-1) for objects without `end` -/
def startOf (t : Tok) : Option Int := t.start.map (fun s => (s : Int))
def endOf (t : Tok) : Option Int := match t.start with | some _ => some (t.stop : Int) | none => (match t.tok with | .custom _ => some (t.stop : Int) | _ => none)

mutual
def outputValue (op : SOpts) : Nat → List VItem → Out → Except Err Out
  | 0, _, _ => .error .fuel
  | fuel+1, items, o => do
    let mut out := o
    let mut prevEnd : Option Int := some (-1)
    let mut prevIsField := false
    let mut i := 0
    for it in items do
      let isFieldAdj := match it with
        | .tok t => (match t.tok with | .field .. => startOf t == prevEnd | _ => false)
        | _ => false
      -- `${bar}foo`: a token with a real position that starts where the previous field ended
      let afterField := match it with
        | .tok t => prevIsField && (startOf t).isSome && startOf t == prevEnd
        | _ => false
      if i != 0 && !isFieldAdj && !afterField then out := out.push [32]
      out ← outputToken op fuel it out
      prevEnd := match it with | .tok t => endOf t | .fn .. => some (-1)
      prevIsField := match it with | .tok t => (match t.tok with | .field .. => true | _ => false) | _ => false
      i := i + 1
    return out
def outputToken (op : SOpts) : Nat → VItem → Out → Except Err Out
  | 0, _, _ => .error .fuel
  | fuel+1, it, o =>
    match it with
    | .tok t =>
      match t.tok with
      | .color r g b a _ => match colorStr r g b a op.shortHex with | some c => pure (o.push c) | none => .error (.internal "unmodelled")
      | .literal s => pure (o.pushString op s)
      | .custom s => pure (o.pushString op s)
      | .number raw unit => match fracRaw raw 4 with | some s => pure (o.pushString op (s ++ unit)) | none => .error (.internal "unmodelled")
      | .string s single => let q : Str := if single then [39] else [34]; pure (o.pushString op (q ++ s ++ q))
      | .field name idx => pure (o.pushField (idx.getD 0) name)
      | _ => pure o
    | .fn name args => do
      let mut out := o.push (name ++ [40])
      let mut i := 0
      for a in args do
        if i != 0 then out := out.push [44, 32]
        out ← outputValue op fuel a out
        i := i + 1
      return out.push [41]
end

def cssProperty (op : SOpts) (n : Node) (o : Out) : Except Err Out := do
  match n.name with
  | some (c :: cs) =>
    let nm := c :: cs
    let mut out := o.pushString op (nm ++ op.between)
    if !n.value.isEmpty then
      let mut i := 0
      for v in n.value do
        if i != 0 then out := out.push [44, 32]
        out ← outputValue op 100 v out
        i := i + 1
    else out := out.pushField 0 []
    if n.important then out := (out.push [32]).push (lit "!important")
    return out.push op.after
  | _ =>
    let mut out := o
    for v in n.value do
      for it in v do
        out ← outputToken op 100 it out
    if n.important then
      if !n.value.isEmpty then out := out.push [32]
      out := out.push (lit "!important")
    return out

/-- `expand` for a stylesheet abbreviation with the snippet table already converted (`convert_snippets` is what the optional
    `cache` of the implementation stores) -/
def expandStylesheetPre (abbr : Str) (sn : Array Snippet) (op : SOpts) : Except Err Str := do
  let props ← parse abbr false
  let nodes ← props.mapM (fun p => resolveNode sn op { name := p.name, value := p.value, important := p.important })
  let kept := if op.skipUnmatched then nodes.filter (fun n => n.snippet.isSome || n.important) else nodes
  let mut out : Out := {}
  let mut i := 0
  for n in kept do
    if op.format && i != 0 then out := out.push (op.newline ++ op.baseIndent)
    out ← cssProperty op n out
    i := i + 1
  return out.buf

def expandStylesheet (abbr : Str) (tbl : List (Str × Str)) (op : SOpts) : Except Err Str := do
  let sn ← convertSnippets tbl
  expandStylesheetPre abbr sn op

end CA
