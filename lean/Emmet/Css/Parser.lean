import Emmet.Css.Tok
namespace CA

inductive VItem
  | tok (t : Tok)
  | fn (name : Str) (args : List (List VItem))
structure CssProp where
  name : Option Str
  value : List (List VItem)
  important : Bool

def isLit (t : Tok) : Bool := match t.tok with | .literal _ => true | _ => false
def isBr (t : Tok) (o : Option Bool) : Bool := match t.tok with | .bracket b => (match o with | none => true | some x => b == x) | _ => false
def isWs (t : Tok) : Bool := match t.tok with | .ws => true | _ => false
def isOp (t : Tok) (ch : Ch) : Bool := match t.tok with | .op c => c == ch | _ => false
def isValueTok (t : Tok) : Bool :=
  match t.tok with | .string .. | .color .. | .number .. | .literal _ | .field .. | .custom _ => true | _ => false
def isValueDelim (t : Tok) : Bool := isOp t 58 || isOp t 45
def litVal (t : Tok) : Str := match t.tok with | .literal v => v | _ => []
def tokErr (t : Option Tok) : Err := .token (match t with | some t => t.start | none => none)

mutual
def consumeValue : Nat → List Tok → Bool → List VItem → Except Err (List VItem × List Tok)
  | 0, _, _, _ => .error .fuel
  | _+1, [], _, acc => .ok (acc.reverse, [])
  | fuel+1, t :: ts, inArg, acc =>
    if isValueTok t then
      if isLit t then do
        match ← consumeArguments fuel ts with
        | some (args, r) => consumeValue fuel r inArg (.fn (litVal t) args :: acc)
        | none => consumeValue fuel ts inArg (.tok t :: acc)
      else consumeValue fuel ts inArg (.tok t :: acc)
    else if isValueDelim t || (inArg && isWs t) then consumeValue fuel ts inArg acc
    else .ok (acc.reverse, t :: ts)
def consumeArguments : Nat → List Tok → Except Err (Option (List (List VItem) × List Tok))
  | 0, _ => .error .fuel
  | fuel+1, t :: ts => if isBr t (some true) then do let r ← argsLoop fuel ts []; return some r else return none
  | _+1, [] => return none
def argsLoop : Nat → List Tok → List (List VItem) → Except Err (List (List VItem) × List Tok)
  | 0, _, _ => .error .fuel
  | _+1, [], acc => .ok (acc.reverse, [])
  | fuel+1, t :: ts, acc =>
    if isBr t (some false) then .ok (acc.reverse, ts)
    else do
      let (v, r) ← consumeValue fuel (t :: ts) true []
      if !v.isEmpty then argsLoop fuel r (v :: acc)
      else
        match r with
        | x :: r' => if isWs x || isOp x 44 then argsLoop fuel r' acc else .error (tokErr (some x))
        | [] => .error (tokErr none)
end

def isFunctionStart : List Tok → Bool
  | t1 :: t2 :: _ => isLit t1 && isBr t2 none
  | _ => false

def propLoop (valueMode : Bool) : Nat → List Tok → Bool → List (List VItem) → Except Err (Bool × List (List VItem) × List Tok)
  | 0, _, _, _ => .error .fuel
  | _+1, [], imp, acc => .ok (imp, acc.reverse, [])
  | fuel+1, t :: ts, imp, acc =>
    if isOp t 33 then propLoop valueMode fuel ts true acc
    else do
      let (v, r) ← consumeValue (2 * (t :: ts).length + 2) (t :: ts) valueMode []
      if !v.isEmpty then propLoop valueMode fuel r imp (v :: acc)
      else
        match r with
        | x :: r' => if isOp x 44 then propLoop valueMode fuel r' imp acc else .ok (imp, acc.reverse, r)
        | [] => .ok (imp, acc.reverse, [])

def consumeProperty (valueMode : Bool) (ts : List Tok) : Except Err (Option CssProp × List Tok) := do
  let (name, r0) : Option Str × List Tok :=
    match ts with
    | t :: r =>
      if !valueMode && isLit t && !isFunctionStart ts then
        (some (litVal t), match r with | d :: r' => if isValueDelim d then r' else r | [] => r)
      else (none, ts)
    | [] => (none, ts)
  let r1 := if valueMode then (match r0 with | w :: r => if isWs w then r else r0 | [] => r0) else r0
  let (imp, vals, r2) ← propLoop valueMode (r1.length + 1) r1 false []
  if name.isSome || !vals.isEmpty || imp then return (some ⟨name, vals, imp⟩, r2) else return (none, r2)

def parserLoop (valueMode : Bool) : Nat → List Tok → List CssProp → Except Err (List CssProp)
  | 0, _, _ => .error .fuel
  | _+1, [], acc => .ok acc.reverse
  | fuel+1, t :: ts, acc => do
    let (p, r) ← consumeProperty valueMode (t :: ts)
    match p with
    | some p => parserLoop valueMode fuel r (p :: acc)
    | none =>
      match r with
      | x :: r' => if isOp x 43 then parserLoop valueMode fuel r' acc else .error (tokErr (some x))
      | [] => .error (tokErr none)          -- consume() fails at EOF → 'Unexpected token' without position

def parse (s : Str) (valueMode : Bool) : Except Err (List CssProp) := do
  let toks ← tokenize s valueMode
  parserLoop valueMode (2 * toks.length + 2) toks []

end CA
