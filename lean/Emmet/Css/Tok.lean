/-! Model of emmet/css_abbreviation (tokenizer/__init__.py, parser.py) on the suffix representation. -/
namespace CA
abbrev Ch := Nat
abbrev Str := List Ch
def isNumber (ch : Ch) : Bool := 48 ≤ ch && ch ≤ 57
def isAlpha (ch : Ch) : Bool := (97 ≤ ch && ch ≤ 122) || (65 ≤ ch && ch ≤ 90)
def isAlphaWord (ch : Ch) : Bool := ch == 95 || isAlpha ch
def isAlphaNumericWord (ch : Ch) : Bool := isNumber ch || isAlphaWord ch
def isQuote (ch : Ch) : Bool := ch == 34 || ch == 39
def isSpace (ch : Ch) : Bool := ch == 32 || ch == 9 || ch == 160 || ch == 10 || ch == 13
def isIdentPrefix (ch : Ch) : Bool := ch == 64 || ch == 36
def isHex (ch : Ch) : Bool := isNumber ch || (65 ≤ ch && ch ≤ 70) || (97 ≤ ch && ch ≤ 102)
def isKeyword (ch : Ch) : Bool := isAlphaNumericWord ch || ch == 45
def isLiteralCh (ch : Ch) : Bool := isAlphaWord ch || ch == 37 || ch == 47

def spanP (p : Ch → Bool) : Str → Str × Str
  | [] => ([], [])
  | x :: xs => if p x then let (a, b) := spanP p xs; (x :: a, b) else ([], x :: xs)
def digitsVal (ds : Str) : Nat := ds.foldl (fun a d => a * 10 + (d - 48)) 0

/-- exact decimal: sign, integer digits, fraction digits (raw text kept) -/
structure Num where
  raw : Str
  deriving Repr, DecidableEq

inductive Token
  | op (ch : Ch)                               -- + ! , : -
  | bracket (isOpen : Bool)
  | literal (value : Str)
  | custom (value : Str)
  | number (raw : Str) (unit : Str)
  | color (r g b : Nat) (alphaRaw : Str) (raw : Str)      -- alphaRaw: '' = 1, else text given to float()
  | string (value : Str) (single : Bool)
  | field (name : Str) (index : Option Nat)
  | ws
  deriving Repr

structure Tok where
  tok : Token
  start : Option Nat          -- always defined (theorem `CA.tokenize_tiles`)
  stop : Nat
  deriving Repr

inductive Err | scanner (pos : Nat) | token (pos : Option Nat) | internal (t : String) | fuel deriving Repr

structure Eaten where
  tok : Token
  used : Nat
  rest : Str

def customProperty : Str → Option Eaten
  | 45 :: 45 :: r => let (a, b) := spanP isKeyword r; some ⟨.custom ([45, 45] ++ a), 2 + a.length, b⟩
  | _ => none

def consumePlaceholder : Nat → Str → List Nat → Nat → Str → Except Nat (Str × Str)
  | 0, _, _, off, _ => .error off
  | _+1, [], stack, _, acc => match stack with | [] => .ok (acc.reverse, []) | top :: _ => .error top
  | fuel+1, x :: xs, stack, off, acc =>
    if x == 123 then consumePlaceholder fuel xs ((off + 1) :: stack) (off + 1) (x :: acc)
    else if x == 125 then
      match stack with
      | [] => .ok (acc.reverse, x :: xs)
      | _ :: st => consumePlaceholder fuel xs st (off + 1) (x :: acc)
    else consumePlaceholder fuel xs stack (off + 1) (x :: acc)

def fieldCont (pos : Nat) (index : Option Nat) (name : Str) (used : Nat) : Str → Except Err (Option Eaten)
  | 125 :: r => .ok (some ⟨.field name index, used + 1, r⟩)
  | _ => .error (.scanner (pos + used))
def field (rest : Str) (pos : Nat) : Except Err (Option Eaten) :=
  match rest with
  | 36 :: 123 :: r =>
    let (ds, r1) := spanP isNumber r
    if ds != [] then
      match r1 with
      | 58 :: r2 =>
        match consumePlaceholder (r2.length + 1) r2 [] 0 [] with
        | .ok (name, r3) => fieldCont pos (some (digitsVal ds)) name (2 + ds.length + 1 + name.length) r3
        | .error off => .error (.scanner (pos + 2 + ds.length + 1 + off))
      | _ => fieldCont pos (some (digitsVal ds)) [] (2 + ds.length) r1
    else
      match r1 with
      | x :: _ =>
        if isAlpha x then
          match consumePlaceholder (r1.length + 1) r1 [] 0 [] with
          | .ok (name, r3) => fieldCont pos none name (2 + name.length) r3
          | .error off => .error (.scanner (pos + 2 + off))
        else fieldCont pos none [] 2 r1
      | [] => fieldCont pos none [] 2 r1
  | _ => .ok none

def optMinus : Str → Str × Str
  | 45 :: r => ([45], r)
  | r => ([], r)
/-- optional `.digits`; a lone dot after no integer digits is not consumed -/
def optFraction (dsEmpty : Bool) : Str → Str × Str
  | 46 :: r => if dsEmpty && (spanP isNumber r).1.isEmpty then ([], 46 :: r) else (46 :: (spanP isNumber r).1, (spanP isNumber r).2)
  | r1 => ([], r1)
/-- `consume_number`: raw text consumed -/
def consumeNumber (rest : Str) : Option (Str × Str) :=
  let m := optMinus rest
  let sp := spanP isNumber m.2
  let fr := optFraction sp.1.isEmpty sp.2
  if sp.1.isEmpty && fr.1.isEmpty then none else some (m.1 ++ sp.1 ++ fr.1, fr.2)

/-- unit: `%` or an alpha word -/
def eatUnit : Str → Str × Str
  | 37 :: r1 => ([37], r1)
  | r => spanP isAlphaWord r

def numberValue (rest : Str) : Option Eaten :=
  match consumeNumber rest with
  | some (raw, r) => some ⟨.number raw (eatUnit r).1, raw.length + (eatUnit r).1.length, (eatUnit r).2⟩
  | none => none

def hexDigit (ch : Ch) : Nat := if isNumber ch then ch - 48 else if 97 ≤ ch then ch - 87 else ch - 55
def hex2 (a b : Ch) : Nat := hexDigit a * 16 + hexDigit b
/-- `parse_color(value)` → r g b (alpha handled separately) -/
def parseColorRgb (v : Str) : Nat × Nat × Nat :=
  match v with
  | [] => (0, 0, 0)
  | [a] => (hex2 a a, hex2 a a, hex2 a a)
  | [a, b] => (hex2 a b, hex2 a b, hex2 a b)
  | [a, b, c] => (hex2 a a, hex2 b b, hex2 c c)
  | _ =>
    let p := List.replicate (6 - v.length) 48 ++ v
    (hex2 (p.getD 0 48) (p.getD 1 48), hex2 (p.getD 2 48) (p.getD 3 48), hex2 (p.getD 4 48) (p.getD 5 48))

/-- `color_alpha`: returns the text handed to float() ('' if absent) and consumed length -/
def colorAlpha : Str → Str × Nat × Str
  | 46 :: r => let (ds, r') := spanP isNumber r; if ds.isEmpty then ([49], 1, r') else (46 :: ds, 1 + ds.length, r')
  | r => ([], 0, r)

def colorValue (rest : Str) : Option Eaten :=
  match rest with
  | 35 :: r =>
    let (hs, r1) := spanP isHex r
    if !hs.isEmpty then
      let (al, n, r2) := colorAlpha r1
      let (cr, cg, cb) := parseColorRgb hs
      some ⟨.color cr cg cb al (rest.drop 1 |>.take (hs.length + n)), 1 + hs.length + n, r2⟩
    else
      match r1 with
      | 116 :: rt =>                                   -- `t` → transparent
        let (al, n, r2) := colorAlpha rt
        let al' := if al.isEmpty then [48] else al
        -- parse_color('0', alpha): r=g=b=0
        some ⟨.color 0 0 0 al' (rest.drop 1 |>.take (1 + n)), 2 + n, r2⟩
      | _ =>
        let (al, n, r2) := colorAlpha r1
        if !al.isEmpty || r2.isEmpty then some ⟨.color 0 0 0 al (rest.drop 1 |>.take n), 1 + n, r2⟩
        else some ⟨.literal [35], 1, r1⟩               -- lone `#` becomes a literal
  | _ => none

def stringValue : Str → Option Eaten
  | q :: r =>
    if isQuote q then
      let rec loop : Str → Str → Str × Str × Bool
        | [], acc => (acc.reverse, [], false)
        | x :: xs, acc => if x == q then (acc.reverse, xs, true) else loop xs (x :: acc)
      let (v, r', fin) := loop r []
      some ⟨.string v (q == 39), 1 + v.length + (if fin then 1 else 0), r'⟩
    else none
  | [] => none

def bracket : Str → Option Eaten
  | 40 :: r => some ⟨.bracket true, 1, r⟩
  | 41 :: r => some ⟨.bracket false, 1, r⟩
  | _ => none
def isOpCh (ch : Ch) : Bool := ch == 43 || ch == 33 || ch == 44 || ch == 58 || ch == 45
def operator : Str → Option Eaten
  | ch :: r => if isOpCh ch then some ⟨.op ch, 1, r⟩ else none
  | [] => none
def whiteSpace (rest : Str) : Option Eaten :=
  let (ws, r) := spanP isSpace rest
  if ws.isEmpty then none else some ⟨.ws, ws.length, r⟩

/-- `literal(scanner, short)`; `atStart` = (start == 0) -/
def literal (rest : Str) (short : Bool) (atStart : Bool) : Option Eaten :=
  match rest with
  | x :: r =>
    if isIdentPrefix x then
      let (a, b) := spanP (if !atStart then isKeyword else isLiteralCh) r
      some ⟨.literal (x :: a), 1 + a.length, b⟩
    else if isAlphaWord x then
      let (a, b) := spanP (if short then isLiteralCh else isKeyword) r
      some ⟨.literal (x :: a), 1 + a.length, b⟩
    else
      let (dot, r1) : Str × Str := if x == 46 then ([46], r) else ([], x :: r)
      let (a, b) := spanP isLiteralCh r1
      if dot.isEmpty && a.isEmpty then none else some ⟨.literal (dot ++ a), dot.length + a.length, b⟩
  | [] => none

def shouldConsumeDashAfter : Token → Bool
  | .color .. => true
  | .number _ unit => unit.isEmpty
  | _ => false

/-- `merge_tokens`: pop trailing literal/number tokens (acc is reversed), replace by one literal spanning them -/
def mergeTokens (src : Array Ch) (acc : List Tok) : List Tok :=
  let rec pop : List Tok → Option Nat → Nat → List Tok × Option Nat × Nat
    | t :: ts, start, stop =>
      match t.tok with
      | .literal _ | .number .. => pop ts t.start (if stop == 0 then t.stop else stop)
      | _ => (t :: ts, start, stop)
    | [], start, stop => ([], start, stop)
  let (rest, start, stop) := pop acc (some 0) 0
  let s := start.getD 0
  if s != stop then ⟨.literal ((src.toList.drop s).take (stop - s)), some s, stop⟩ :: rest else rest

/-- the alternatives after `custom_property` and `field` -/
def plainToken (rest : Str) (short atStart : Bool) : Option Eaten :=
  (numberValue rest) <|> (colorValue rest) <|> (stringValue rest) <|> (bracket rest) <|>
    (operator rest) <|> (whiteSpace rest) <|> (literal rest short atStart)

/-- the first consumer that succeeds; the flag would mark a token without `start`; no consumer sets it any more (custom properties carry their start) -/
def nextToken (rest : Str) (pos : Nat) (short : Bool) : Except Err (Option (Eaten × Bool)) :=
  match customProperty rest with
  | some e => .ok (some (e, false))
  | none =>
    match field rest pos with
    | .error err => .error err
    | .ok (some e) => .ok (some (e, false))
    | .ok none =>
      match plainToken rest short (pos == 0) with
      | some e => .ok (some (e, false))
      | none => .ok none

/-- bracket bookkeeping: merge the function name, count, reject a negative count -/
def bracketStep (src : Array Ch) (pos : Nat) (tok : Token) (brackets : Int) (acc : List Tok) : Except Err (List Tok × Int) :=
  match tok with
  | .bracket isOpen =>
    let acc' := if brackets == 0 && isOpen then mergeTokens src acc else acc
    let b' := brackets + (if isOpen then 1 else -1)
    if b' < 0 then .error (.scanner pos) else .ok (acc', b')
  | _ => .ok (acc, brackets)

def loop (src : Array Ch) (isValue : Bool) : Nat → Str → Nat → Int → List Tok → Except Err (List Tok)
  | 0, _, _, _, _ => .error .fuel
  | _+1, [], _, _, acc => .ok acc.reverse
  | fuel+1, x :: xs, pos, brackets, acc =>
    match nextToken (x :: xs) pos (brackets == 0 && !isValue) with
    | .error err => .error err
    | .ok none => .error (.scanner pos)
    | .ok (some (e, noStart)) =>
      match bracketStep src pos e.tok brackets acc with
      | .error err => .error err
      | .ok (acc1, brackets1) =>
        let tok : Tok := ⟨e.tok, if noStart then none else some pos, pos + e.used⟩
        if shouldConsumeDashAfter e.tok then
          match operator e.rest with
          | some o => loop src isValue fuel o.rest (pos + e.used + 1) brackets1
              (⟨o.tok, some (pos + e.used), pos + e.used + 1⟩ :: tok :: acc1)
          | none => loop src isValue fuel e.rest (pos + e.used) brackets1 (tok :: acc1)
        else loop src isValue fuel e.rest (pos + e.used) brackets1 (tok :: acc1)

def tokenize (s : Str) (isValue : Bool) : Except Err (List Tok) := loop s.toArray isValue (s.length + 1) s 0 0 []

end CA
