import Emmet.Matcher.Html
import Emmet.Matcher.CssMatch
/-! Model of emmet/action_utils (html.py, css.py, utils.py) on top of the scanner models. Attribute ranges come from
    `html_matcher.attributes`, which is not modelled: the HTML helpers are modelled up to the tag they select and its name range. -/
namespace H

/-- `get_open_tag`: the first tag whose range strictly contains `pos`; the scan stops at the first tag that ends after `pos` -/
def getOpenTag (pos : Int) : List Ev → Option Ev
  | [] => none
  | e :: es =>
    if (e.start : Int) < pos && pos < e.stop then some e
    else if (e.stop : Int) > pos then none
    else getOpenTag pos es

def isOpenish (e : Ev) : Bool := e.type == .open || e.type == .selfClose

/-- `select_next_item`: first open / self-closing tag that ends after `pos` -/
def selectNext (pos : Int) : List Ev → Option Ev
  | [] => none
  | e :: es => if isOpenish e && (e.stop : Int) > pos then some e else selectNext pos es

/-- `select_previous_item`: last open / self-closing tag before the first tag that starts at or after `pos` -/
def selectPrev (pos : Int) : List Ev → Option Ev → Option Ev
  | [], last => last
  | e :: es, last => if (e.start : Int) ≥ pos then last else selectPrev pos es (if isOpenish e then some e else last)

/-- `token_list(value, offset)`: ranges of the space-separated words -/
def tokenLoop : List Ch → Nat → Nat → List (Nat × Nat) → List (Nat × Nat)     -- rest, pos, start of current word, acc (reversed)
  | [], pos, start, acc => if start != pos then (start, pos) :: acc else acc
  | ch :: r, pos, start, acc =>
    if isSpace ch then tokenLoop r (pos + 1) (pos + 1) (if start != pos then (start, pos) :: acc else acc)   -- a run of spaces: nothing to push after the first
    else tokenLoop r (pos + 1) start acc
def tokenList (value : List Ch) (offset : Nat) : List (Nat × Nat) :=
  (tokenLoop value 0 0 []).reverse.map fun r => (offset + r.1, offset + r.2)

end H

namespace C
structure Section where
  start : Int
  stop : Int
  bodyStart : Int
  bodyEnd : Int

/-- `get_css_section` (without properties) -/
def sectionLoop (pos : Int) : List Ev → List Rng → Option Section
  | [], _ => none
  | ev :: evs, stack =>
    if ev.start > pos && stack.isEmpty then none
    else match ev.type with
      | .selector => sectionLoop pos evs ((ev.start, ev.stop, ev.delimiter) :: stack)
      | .blockEnd =>
        match stack with
        | sel :: rest =>
          if sel.1 ≤ pos && pos ≤ ev.stop then some ⟨sel.1, ev.stop, sel.2.2 + 1, ev.start⟩
          else sectionLoop pos evs rest
        | [] => sectionLoop pos evs []
      | _ => sectionLoop pos evs stack

structure Item where
  start : Int
  stop : Int
  ranges : List (Int × Int)

def pushRange (rs : List (Int × Int)) (r : Int × Int) : List (Int × Int) :=        -- rs in order
  match rs.getLast? with
  | some prev => if r.1 != r.2 && (prev.1 != r.1 || prev.2 != r.2) then rs ++ [r] else rs
  | none => if r.1 != r.2 then rs ++ [r] else rs

def slice (src : Str) (a b : Int) : Str := (src.drop a.toNat).take (b.toNat - a.toNat)

/-- value range + fragments of a property value -/
def valueRanges (src : Str) (start stop : Int) (rs : List (Int × Int)) : List (Int × Int) :=
  (splitValue (slice src start stop)).foldl (fun acc r => pushRange acc (r.1 + start, r.2 + start)) (pushRange rs (start, stop))

/-- `property_end(code, end, delimiter)`: right after a `;` delimiter; a declaration terminated by `}` or by the end of the source
    ends with its value -/
def propertyEnd (src : Str) (stop delimiter : Int) : Int :=
  if delimiter != -1 && (src.getD delimiter.toNat 0) == 59 && 0 ≤ delimiter then delimiter + 1 else stop

/-- `select_next_item` (css) -/
def nextLoop (src : Str) (pos : Int) : List Ev → Option Rng → Option Item
  | [], _ => none
  | ev :: evs, pending =>
    if ev.start < pos then nextLoop src pos evs pending
    else match ev.type with
      | .selector => some ⟨ev.start, ev.stop, [(ev.start, ev.stop)]⟩
      | .propertyName => nextLoop src pos evs (some (ev.start, ev.stop, ev.delimiter))
      | .propertyValue =>
        let stop := propertyEnd src ev.stop ev.delimiter
        match pending with
        | some p => some ⟨p.1, stop, valueRanges src ev.start ev.stop (pushRange [] (p.1, stop))⟩
        | none => some ⟨ev.start, stop, valueRanges src ev.start ev.stop []⟩
      | .blockEnd =>
        match pending with
        | some p => some ⟨p.1, p.2.1, [(p.1, p.2.1)]⟩
        | none => nextLoop src pos evs pending

structure PState where
  type : Option TT := none
  start : Int := -1
  stop : Int := -1
  vStart : Int := -1
  vEnd : Int := -1
  vDelim : Int := -1

/-- `select_previous_item` (css) -/
def prevLoop (pos : Int) : List Ev → PState → PState
  | [], st => st
  | ev :: evs, st =>
    if ev.start ≥ pos && ev.type != .propertyValue then st
    else match ev.type with
      | .selector | .propertyName => prevLoop pos evs { type := some ev.type, start := ev.start, stop := ev.stop }
      | .propertyValue => prevLoop pos evs { st with vStart := ev.start, vEnd := ev.stop, vDelim := ev.delimiter }
      | .blockEnd => prevLoop pos evs st
def selectPrevCss (src : Str) (pos : Int) (evs : List Ev) : Option Item :=
  let st := prevLoop pos evs {}
  match st.type with
  | some .selector => some ⟨st.start, st.stop, [(st.start, st.stop)]⟩
  | some .propertyName =>
    if st.vStart != -1 then
      let stop := propertyEnd src st.vEnd st.vDelim
      some ⟨st.start, stop, valueRanges src st.vStart st.vEnd (pushRange [] (st.start, stop))⟩
    else some ⟨st.start, st.stop, pushRange [] (st.start, st.stop)⟩
  | _ => none

end C
