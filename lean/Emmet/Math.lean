/-! Model of emmet/math_expression (parser.py, __init__.py, extract.py). Numbers are exact decimals (num/den as Int × Nat). -/
namespace M
abbrev Ch := Nat
abbrev Str := List Ch

inductive MErr
  | math (pos : Nat)          -- MathExpressionException with scanner.pos
  | mathNoPos                 -- MathExpressionException raised without a scanner (no position)
  | zeroDiv
  | internal (tag : String)
  | fuel
  deriving Repr

/-- exact rationals, kept as a pair (no Mathlib in the model) -/
structure Q where
  num : Int
  den : Nat            -- > 0
  deriving Repr
def Q.norm (q : Q) : Q :=
  let g := Nat.gcd q.num.natAbs q.den
  if g == 0 then q else ⟨q.num / g, q.den / g⟩
def Q.add (a b : Q) : Q := Q.norm ⟨a.num * b.den + b.num * a.den, a.den * b.den⟩
def Q.neg (a : Q) : Q := ⟨-a.num, a.den⟩
def Q.sub (a b : Q) : Q := a.add b.neg
def Q.mul (a b : Q) : Q := Q.norm ⟨a.num * b.num, a.den * b.den⟩
def Q.isZero (a : Q) : Bool := a.num == 0
def Q.div (a b : Q) : Q :=      -- b ≠ 0
  let s : Int := if b.num < 0 then -1 else 1
  Q.norm ⟨s * a.num * b.den, a.den * b.num.natAbs⟩
def Q.floor (a : Q) : Q := ⟨a.num / a.den, 1⟩          -- Int `/` is floor division for positive divisor (Int.div rounds toward -inf with `/`?)

inductive TokType | num | op1 | op2 | null deriving Repr, DecidableEq
structure Token where
  type : TokType
  op : Ch := 0            -- operator character
  value : Q := ⟨0, 1⟩
  priority : Int := 0
  deriving Repr

def isWhiteSpace (ch : Ch) : Bool := ch == 32 || ch == 9 || ch == 160
def isSpace (ch : Ch) : Bool := isWhiteSpace ch || ch == 10 || ch == 13
def isNumber (ch : Ch) : Bool := 48 ≤ ch && ch ≤ 57
def isOperator (ch : Ch) : Bool := ch == 43 || ch == 45 || ch == 42 || ch == 47 || ch == 92
def isSign (ch : Ch) : Bool := ch == 43 || ch == 45

def spanP (p : Ch → Bool) : Str → Str × Str
  | [] => ([], [])
  | x :: xs => if p x then let (a, b) := spanP p xs; (x :: a, b) else ([], x :: xs)
def digitsVal (ds : Str) : Nat := ds.foldl (fun a d => a * 10 + (d - 48)) 0

/-- `consume_number`: (int digits, frac digits, rest) -/
def consumeNumber (rest : Str) : Option (Str × Str × Str × Nat) :=   -- (int, frac, rest, consumed length)
  -- `.` digits+
  match rest with
  | 46 :: r =>
    let (fs, r1) := spanP isNumber r
    if fs != [] then some ([], fs, r1, 1 + fs.length)
    else none        -- eat('.') succeeded but no digits; second alternative starts at pos after '.'?  (see note)
  | _ =>
    let (ds, r1) := spanP isNumber rest
    if ds == [] then none
    else match r1 with
      | 46 :: r2 =>
        let (fs, r3) := spanP isNumber r2
        if fs != [] then some (ds, fs, r3, ds.length + 1 + fs.length) else none     -- `1.` is rejected, position reverts
      | _ => some (ds, [], r1, ds.length)

def mkNumber (ds fs : Str) : Q := Q.norm ⟨(digitsVal (ds ++ fs) : Int), 10 ^ fs.length⟩

-- expected-state bit flags
def Primary := 1
def Operator := 2
def LParen := 4
def RParen := 8
def Sign := 16
def NullaryCall := 32
def has (e flag : Nat) : Bool := (e / flag) % 2 == 1

def op1Prio (ch : Ch) (p : Int) : Int := if ch == 45 then p + 2 else p
def op2Prio (ch : Ch) (p : Int) : Int := if ch == 42 then p + 1 else if ch == 47 || ch == 92 then p + 2 else p

/-- main loop of `parse`; `pos` = scanner.pos -/
def parseLoop : Nat → Str → Nat → Int → Nat → List Token → Except MErr (List Token × Int × Nat)
  | 0, _, _, _, _, _ => .error .fuel
  | _+1, [], pos, prio, _, acc => .ok (acc.reverse, prio, pos)
  | fuel+1, rest, pos, prio, expected, acc =>
    let (ws, r0) := spanP isWhiteSpace rest
    let pos0 := pos + ws.length
    -- NB: the Python loop condition is checked before skipping blanks, so trailing blanks fall into the branches below
    match consumeNumber r0 with
    | some (ds, fs, r1, n) =>
      if !has expected Primary then .error (.math (pos0 + n))
      else parseLoop fuel r1 (pos0 + n) prio (Operator + RParen) ({ type := .num, value := mkNumber ds fs } :: acc)
    | none =>
      match r0 with
      | [] => .error (.math pos0)                                  -- Unknown character at EOF after blanks
      | ch :: r1 =>
        if isOperator ch then
          if isSign ch && has expected Sign then
            let acc' := if ch == 45 then { type := .op1, op := ch, priority := op1Prio ch prio } :: acc else acc
            parseLoop fuel r1 (pos0 + 1) prio (Primary + LParen + Sign) acc'
          else if !has expected Operator then .error (.math (pos0 + 1))
          else parseLoop fuel r1 (pos0 + 1) prio (Primary + LParen + Sign) ({ type := .op2, op := ch, priority := op2Prio ch prio } :: acc)
        else if ch == 40 then
          if !has expected LParen then .error (.math (pos0 + 1))
          else parseLoop fuel r1 (pos0 + 1) (prio + 10) (Primary + LParen + Sign + NullaryCall) acc
        else if ch == 41 then
          let prio' := prio - 10
          if prio' < 0 then .error (.math (pos0 + 1))            -- Unmatched ")"
          else if has expected NullaryCall then parseLoop fuel r1 (pos0 + 1) prio' (Operator + RParen) ({ type := .null } :: acc)
          else if !has expected RParen then .error (.math (pos0 + 1))
          else parseLoop fuel r1 (pos0 + 1) prio' (Operator + RParen) acc
        else .error (.math pos0)

/-- `order_tokens` -/
def popWhile (t : Token) : List Token → List Token → List Token × List Token     -- (operators stack top-first, operands rev)
  | o :: os, operands => if t.priority ≤ o.priority then popWhile t os (o :: operands) else (o :: os, operands)
  | [], operands => ([], operands)
/-- `order_tokens` loop (a prefix operator never pops; the parity counter is `arity`): tokens, operators (top first), operands (reversed) -/
def orderLoopF : List Token → List Token → List Token → List Token × List Token
  | [], ops, operands => (ops, operands)
  | t :: ts, ops, operands =>
    if t.type == .num then orderLoopF ts ops (t :: operands)
    else if t.type == .op1 then orderLoopF ts (t :: ops) operands
    else orderLoopF ts (t :: (popWhile t ops operands).1) (popWhile t ops operands).2

/-- `order_tokens` without the parity test -/
def orderF (tokens : List Token) : List Token :=
  (orderLoopF tokens [] []).2.reverse ++ (orderLoopF tokens [] []).1

def arity (ts : List Token) : Nat :=
  (ts.map fun t => if t.type == .num then 0 else if t.type == .op1 then 1 else 2).sum
/-- `order_tokens`: `None` when `n_operators + 1 != len(tokens)` (parity) -/
def orderTokens (tokens : List Token) : Option (List Token) :=
  if arity tokens + 1 != tokens.length then none else some (orderF tokens)

def parse (s : Str) : Except MErr (List Token) := do
  let (tokens, prio, pos) ← parseLoop (s.length + 1) s 0 0 (Primary + LParen + Sign) []
  if prio ≥ 10 then .error (.math pos)                 -- 0 < priority >= 10
  else match orderTokens tokens with
    | some r => .ok r
    | none => .error (.math pos)

/-- `evaluate` -/
def evalLoop : List Token → List Q → Except MErr (List Q)
  | [], st => .ok st
  | t :: ts, st =>
    match t.type with
    | .num => evalLoop ts (t.value :: st)
    | .op2 =>
      match st with
      | n2 :: n1 :: rest =>
        if t.op == 43 then evalLoop ts (n1.add n2 :: rest)
        else if t.op == 45 then evalLoop ts (n1.sub n2 :: rest)
        else if t.op == 42 then evalLoop ts (n1.mul n2 :: rest)
        else if n2.isZero then .error .zeroDiv
        else if t.op == 47 then evalLoop ts (n1.div n2 :: rest)
        else evalLoop ts ((n1.div n2).floor :: rest)
      | _ => .error (.internal "IndexError")
    | .op1 =>
      match st with
      | n1 :: rest => evalLoop ts (n1.neg :: rest)
      | [] => .error (.internal "IndexError")
    | .null => .error .mathNoPos                       -- MathExpressionException('Invalid expression')

/-- `evaluate(expr)` for a string: `parse` (tokenize, parenthesis check, parity, ordering) then the RPN loop -/
def evaluateF (s : Str) : Except MErr (Option Q) := do
  let (tokens, prio, pos) ← parseLoop (s.length + 1) s 0 0 (Primary + LParen + Sign) []
  if prio ≥ 10 then .error (.math pos)
  else if arity tokens + 1 != tokens.length then .error (.math pos)
  else
    let expr := orderF tokens
    if expr.isEmpty then return none
    let st ← evalLoop expr []
    match st with
    | [v] => return some v
    | [] => .error (.internal "IndexError")
    | _ => .error .mathNoPos                           -- parity (unreachable: theorem)

def evaluate (s : Str) : Except MErr (Option Q) := evaluateF s

end M
