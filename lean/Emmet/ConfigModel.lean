import Emmet.Generated.Config
import Emmet.Markup.Indent
import Emmet.Css.Style
/-! Model of `emmet/config.py` (`Config.__init__`, `merged_data`) on top of the generated tables, and of the dispatch in
    `emmet/__init__.py` (`expand`). The layering itself is `Cfg.mergeLayers` (theorem `get?_mergeLayers`). -/
namespace Cfg
open T (Str lit)

/-- one entry of `SYNTAX_CONFIG` / of the caller's `global_config`: each of the three keys may be absent -/
structure Layer where
  options : Option (Dict String OptVal) := none
  snippets : Option (Dict Str Str) := none
  variables : Option (Dict Str Str) := none

/-- the caller's `config` dictionary (well-typed fragment) -/
structure RawConfig where
  type : Option Str := none                 -- user_config.get('type', 'markup')
  syn : Option Str := none                  -- user_config.get('syntax', DEFAULT_SYNTAXES.get(type, 'html'))
  options : Option (Dict String OptVal) := none
  snippets : Option (Dict Str Str) := none
  variables : Option (Dict Str Str) := none
  text : T.TextArg := .none
  maxRepeat : Option Int := none
  contextName : Option Str := none

abbrev GlobalConfig := List (Str × Layer)

def strOf (s : Str) : String := String.ofList (s.map Char.ofNat)
def cook (t : List (String × String)) : Dict Str Str := t.map fun kv => (lit kv.1, lit kv.2)

/-- `SYNTAX_CONFIG.get(name, {})` from the generated table -/
def builtinLayer (name : Str) : Layer :=
  match Gen.syntaxConfig.find? (fun e => e.1 == strOf name) with
  | some (_, sn, op) => { options := op, snippets := sn.map cook }
  | none => {}
def globalLayer (g : GlobalConfig) (name : Str) : Layer :=
  match g.find? (fun e => e.1 == name) with | some (_, l) => l | none => {}

def typeOf (u : RawConfig) : Str := u.type.getD (lit "markup")
def syntaxOf (u : RawConfig) : Str :=
  match u.syn with
  | some s => s
  | none => match Gen.defaultSyntaxes.find? (fun e => e.1 == strOf (typeOf u)) with | some (_, s) => lit s | none => lit "html"

/-- `merged_data(type, syntax, 'options', user, global)`: the six layers in order of increasing specificity -/
def optionLayers (u : RawConfig) (g : GlobalConfig) : List (Option (Dict String OptVal)) :=
  [some Gen.defaultOptions, (builtinLayer (typeOf u)).options, (builtinLayer (syntaxOf u)).options,
   (globalLayer g (typeOf u)).options, (globalLayer g (syntaxOf u)).options, some (u.options.getD [])]
def snippetLayers (u : RawConfig) (g : GlobalConfig) : List (Option (Dict Str Str)) :=
  [some [], (builtinLayer (typeOf u)).snippets, (builtinLayer (syntaxOf u)).snippets,
   (globalLayer g (typeOf u)).snippets, (globalLayer g (syntaxOf u)).snippets, some (u.snippets.getD [])]
def variableLayers (u : RawConfig) (g : GlobalConfig) : List (Option (Dict Str Str)) :=
  [some T.Gen.variables, (builtinLayer (typeOf u)).variables, (builtinLayer (syntaxOf u)).variables,
   (globalLayer g (typeOf u)).variables, (globalLayer g (syntaxOf u)).variables, some (u.variables.getD [])]

def mergedOptions (u : RawConfig) (g : GlobalConfig) : Dict String OptVal := mergeLayers (optionLayers u g)
def mergedSnippets (u : RawConfig) (g : GlobalConfig) : Dict Str Str := mergeLayers (snippetLayers u g)
def mergedVariables (u : RawConfig) (g : GlobalConfig) : Dict Str Str := mergeLayers (variableLayers u g)

/-! ### typed reads of resolved options (`config.options.get(key)`) -/
def getB (o : Dict String OptVal) (k : String) : Bool := match get? o k with | some (.b v) => v | some (.n v) => v != 0 | some (.s v) => !v.isEmpty | some (.l v) => !v.isEmpty | some (.d v) => !v.isEmpty | none => false
def getS (o : Dict String OptVal) (k : String) : Str := match get? o k with | some (.s v) => v | _ => []
def getL (o : Dict String OptVal) (k : String) : List Str := match get? o k with | some (.l v) => v | _ => []
def getD (o : Dict String OptVal) (k : String) : List (Str × Str) := match get? o k with | some (.d v) => v | _ => []
def getN (o : Dict String OptVal) (k : String) : Int := match get? o k with | some (.n v) => v | some (.b v) => if v then 1 else 0 | _ => 0

def markupOptions (u : RawConfig) (g : GlobalConfig) : T.Options :=
  let o := mergedOptions u g
  let sc := getS o "output.selfClosingStyle"
  { syn := syntaxOf u
    inlineElements := getL o "inlineElements"
    indent := getS o "output.indent"
    baseIndent := getS o "output.baseIndent"
    newline := getS o "output.newline"
    tagCase := getS o "output.tagCase"
    attributeCase := getS o "output.attributeCase"
    singleQuotes := getS o "output.attributeQuotes" == lit "single"
    format := getB o "output.format"
    formatLeafNode := getB o "output.formatLeafNode"
    formatSkip := getL o "output.formatSkip"
    formatForce := getL o "output.formatForce"
    inlineBreak := (getN o "output.inlineBreak").toNat
    compactBoolean := getB o "output.compactBoolean"
    booleanAttributes := getL o "output.booleanAttributes"
    reverseAttributes := getB o "output.reverseAttributes"
    selfClosing := if sc == lit "xhtml" then .xhtml else if sc == lit "xml" then .xml else .html
    jsx := getB o "jsx.enabled"
    markupAttributes := getD o "markup.attributes"
    valuePrefix := getD o "markup.valuePrefix"
    snippets := mergedSnippets u g
    variables := mergedVariables u g
    text := u.text
    maxRepeat := u.maxRepeat
    contextName := u.contextName
    isMarkupType := typeOf u == lit "markup" }

def stylesheetOptions (u : RawConfig) (g : GlobalConfig) : CA.SOpts :=
  let o := mergedOptions u g
  { keywords := getL o "stylesheet.keywords"
    unitless := getL o "stylesheet.unitless"
    shortHex := getB o "stylesheet.shortHex"
    between := getS o "stylesheet.between"
    after := getS o "stylesheet.after"
    intUnit := getS o "stylesheet.intUnit"
    floatUnit := getS o "stylesheet.floatUnit"
    unitAliases := getD o "stylesheet.unitAliases"
    skipUnmatched := getB o "stylesheet.skipUnmatched"
    format := getB o "output.format"
    newline := getS o "output.newline"
    baseIndent := getS o "output.baseIndent"
    indent := getS o "output.indent"
    scope := u.contextName }

inductive Outcome
  | ok (s : Str)
  | scanner (pos : Nat)
  | token (pos : Option Nat)
  | internal (tag : String)
  | fuel

def ofCss : Except CA.Err Str → Outcome
  | .ok s => .ok s
  | .error (.scanner p) => .scanner p
  | .error (.token p) => .token p
  | .error (.internal t) => .internal t
  | .error .fuel => .fuel

/-- `emmet.expand(abbr, config, global_config)` -/
def expand (abbr : Str) (u : RawConfig) (g : GlobalConfig) : Outcome :=
  if typeOf u == lit "stylesheet" then
    match CA.expandStylesheet abbr (mergedSnippets u g) (stylesheetOptions u g) with
    | .ok s => .ok s
    | .error (.scanner p) => .scanner p
    | .error (.token p) => .token p
    | .error (.internal t) => .internal t
    | .error .fuel => .fuel
  else
    match T.expandAny abbr (markupOptions u g) with
    | .ok s => .ok s
    | .error (.scanner p) => .scanner p
    | .error (.token p) => .token p
    | .error (.internal t) => .internal t
    | .error .fuel => .fuel

end Cfg
