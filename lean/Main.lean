import Emmet.Driver.Tok
import Emmet.Driver.Conv
import Emmet.Driver.Expand
import Emmet.Driver.Math
import Emmet.Driver.Html
import Emmet.Driver.Css
import Emmet.Driver.Extract
import Emmet.Driver.CssAbbr
import Emmet.Driver.Style
import Emmet.Driver.ExpandG
import Emmet.Spec.C06
import Emmet.Driver.Action
import Emmet.Driver.Stream

/-- model driver: `driver <mode>` reads one request per line on stdin and answers one line per request -/
def main (args : List String) : IO UInt32 := do
  match args with
  | ["tok"] => Drv.Tok.main; return 0
  | ["conv"] => Drv.Conv.main; return 0
  | ["expand"] => Drv.Expand.main; return 0
  | ["math"] => Drv.Math.main; return 0
  | ["html"] => Drv.Html.main; return 0
  | ["css"] => Drv.Css.main; return 0
  | ["extract"] => Drv.Extract.main; return 0
  | ["cssabbr"] => Drv.CssAbbr.main; return 0
  | ["style"] => Drv.Style.main; return 0
  | ["expandg"] => Drv.ExpandG.main; return 0
  | ["resolve"] => Drv.ExpandG.mainResolve; return 0
  | ["action"] => Drv.Action.main; return 0
  | ["stream"] => Drv.Stream.main; return 0
  | ["selfcheck"] => IO.println s!"C06.keyOrderAgrees {EmmetProps.keyOrderAgrees}"; return 0
  | _ => IO.eprintln "usage: driver <mode>"; return 2
