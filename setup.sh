#!/bin/sh
# MANIFEST.setup_cmd: build the whole Lean side once, offline, from files on disk only.
set -e
cd "$(dirname "$0")"
/venv/bin/python -B tools/translate.py
cd lean
lake build
